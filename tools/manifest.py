#!/usr/bin/env python3
# Regenerates MANIFEST.json from the table below (keeps it valid and consistent).
import json, os
here = os.path.dirname(os.path.dirname(os.path.abspath(__file__)))
TECH = "deterministic simulation with fault injection"
claimed = {
 "C16": ("exploration", "local store directories produced by a simulated history (complete writes in both formats, writers killed leaving temporary files, corrupted objects, junk) are pruned against reference sets and verified (with and without repair) by n workers under the seeded scheduler; oracle: exact expected file set and exact set of reported chunk ids, classified by an independent validator",
         "sampling; the name filter itself is a pure function of the listing (stated partial scope); S3 prune against an in-harness S3 endpoint and SFTP prune against a pkg/sftp server behind an ssh shim run sparsely; a share of the cases runs the real prune (1-3 indexes) and verify [-r] commands",
         TECH + " (fault-produced store states, seeded scheduler for concurrent verify, set-equality oracle)"),
 "C08": ("fault_enumeration", "part A: for ChopFile, Copy and concurrent StoreChunk into a real LocalStore a seeded schedule with every file-system call as a scheduling point is recorded, then process death is injected at every file-system point (clean and as a torn write of the file that just grew); an independent zstd+SHA validator inspects the directory, Prune must remove exactly the temporary files, restarts must complete. part B: the real desync extract binary is SIGKILLed while request k is held by a gated HTTP chunk server, for every k: without --in-place the destination is untouched, with it a re-run completes correctly and does not refetch written chunks",
         "exhaustive over file-system points of each recorded schedule (<= 120), over request indexes of each extract and over the file-system system calls of each traced command (<= 50, else first/last/sampled); in the bubble death = freeze (equivalent to SIGKILL for file contents), at process level a real SIGKILL (gated server, ptrace); torn writes at whole-file granularity; power loss out of scope",
         TECH + " (crash-point enumeration with torn writes, independent store validator, real binary under a gated server)"),
 "C05": ("exploration", "random trees with hostile names and full metadata are packed and unpacked through the real Tar/UnTar, through the five-stage chunked pipeline (Tar -> pipe -> ChunkStream -> index -> UnTarIndex) under the seeded scheduler with a slow store, through GNU-tar and mtree output and (possibly truncated) tar-stream input, under both digests, in the bubble and through the real tar/untar/mtree commands; oracle: metadata+content snapshot equality, byte-identical repeated packing, chunked bytes == direct archive",
         "sampling; metadata fidelity is input coverage (stated partial scope), the simulated part is the chunked pipeline; fifos and sockets not exercised; xattrs/device numbers not compared for mtree output, xattrs/sub-second times not for GNU tar output",
         TECH + " (seeded scheduler over the chunked tar pipeline, snapshot oracle)"),
 "C04": ("fault_enumeration", "generated indexes are written with the real encoder, checked against an independent caibx parser, read back through a fragmenting stream, the local, HTTP, S3 and SFTP index stores and (process level) the list-chunks/info/make commands with files and standard input/output; then every strict prefix (torn write / cut connection), swapped offsets, an over-long chunk and a flipped digest flag must be rejected; casync-made fixtures must re-encode byte-identically",
         "exhaustive over prefixes of each generated file (stream mode; <= 600 evenly spaced prefixes per file through stores); the round-trip half is input coverage, not simulation (stated partial scope); console index store at process level only (list-chunks, info, make -)",
         TECH + " (stream/stored-index fault enumeration, independent parser as oracle)"),
 "C19": ("fault_enumeration", "valid indexes, catar fixtures and protocol message streams are fed to the real decoders through a reader that truncates at every byte, sets every element size field to each critical value (0, <16, 16, 17, ..., size+-1, 2^20, 2^50, 2^63, 2^64-1), replaces type fields, flips bits, fragments reads and fails; oracle: no panic, allocation <= 8*len+128 KiB, reader errors surface",
         "only faulted valid streams are explored, not all byte strings (stated partial scope); sizes between 2^31 and 2^47 are not injected; catar inputs are the repository fixtures",
         TECH + " (stream fault enumeration with allocation accounting)"),
 "C14": ("exploration", "seeded search over the compression/verification matrix, GET/HEAD/PUT for chunks and indexes (incl. chained index servers), scripted server response sequences (reset, 5xx, short body, response past the time-out, then served/404/4xx), error-retry values and back-off bases for the real HTTP client and handlers over an in-process transport in fake time, and casync-protocol sessions over a pipe with fragmentation and mid-message cuts; oracle: data byte-identical, missing vs failed reported truthfully, transient runs below the budget invisible, attempt count and simulated back-off time exactly as documented",
         "sampling; TLS/auth not exercised; real sockets and child processes only in the process-level share (chunk-server, index-server, config+flag retry budgets, casync protocol end to end through an ssh shim and desync pull); mismatched client/server compression settings not generated",
         TECH + " (scripted transport faults in fake time, real client and server code)"),
 "C03": ("fault_enumeration", "for LocalStore, the real HTTP client/handler pair over an in-process transport and the casync protocol client/server over a pipe, under every compression/verification setting and seven wrapper stacks, the stored object of a chunk is corrupted in every enumerated way (every byte position and every truncation length for objects <= 512 bytes, replacement by other valid objects/frames/raw data/garbage, junk before/after, corrupted cache entry) and fetched through a fresh stack; extract and cat pipelines run over a poisoned store; oracle: error or data hashing to the requested ID",
         "exhaustive over positions/lengths for small stored objects, sampled for larger; S3 (in-harness endpoint) and SFTP (pkg/sftp server behind an ssh shim) backends run sparsely; flips of the two zstd content-size-flag bits are skipped (they make the pinned zstd decoder allocate up to 64 GiB before rejecting the frame)",
         TECH + " (stored-object fault enumeration over real stores and wrapper stacks, simulated transports)"),
 "C17": ("fault_enumeration", "for each generated blob and worker count the intact file must verify and every enumerated fault on the stored blob (a changed byte at every position of small blobs or at positions biased to first/last/batch-boundary chunks, truncation, extension, equal-size chunk swap) must make the real VerifyIndex fail, each verification run with its n workers under the seeded scheduler",
         "exhaustive over single-byte positions for blobs <= 1500 bytes, sampled otherwise; one bit flipped per byte",
         TECH + " (stored-blob fault enumeration under a seeded scheduler)"),
 "C10": ("exploration", "seeded search over concurrent ReadAt / FUSE-node read sequences on the real SparseFile, state saves at arbitrary moments, preload, transient store failures, and restart cycles (clean or by process death at a scheduling step) that reuse cache and state files, incl. removed/resized cache files and missing/foreign state files; per-read oracle: the blob bytes or an error attributable to an injected store failure, never zeros",
         "sampling; process death = freezing all tasks and reopening from the files (equivalent to SIGKILL for file contents); the FUSE kernel bridge is a stub",
         TECH + " (seeded scheduler, fault-injecting store, crash-restart with durable files only, per-read oracle)"),
 "C09": ("exploration", "seeded search over blobs (empty, null-chunk runs, repeated chunks), Seek/Read histories on the real IndexPos and read requests on the real FUSE index-file node (sequential on several handles and concurrent on one handle), with store faults at chosen requests; bytes.Reader-style model oracle over the blob",
         "sampling; the FUSE kernel bridge is a stub (node methods are called in process)",
         TECH + " (fault-injecting store, seeded scheduler for shared handles, reference-model oracle)"),
 "C11": ("exploration", "seeded search over chain shapes, member contents, per-member fault schedules, concurrent clients and a reconfiguration task for the real StoreRouter, Cache, RepairableCache, FailoverGroup and SwapStore; per-operation trace conformance of the member calls and the result against the documented policy evaluated over the observed member outcomes",
         "sampling; in the bubble the failover member choice is bounded, not predicted (at process level, with static member faults and one request at a time, it is predicted exactly, request logs included); de-duplication inside chains is left to C12",
         TECH + " (seeded scheduler, fault-scheduled member stores, per-operation policy conformance)"),
 "C06": ("exploration", "seeded search over inputs with many duplicate chunks, worker counts, interleavings and store-failure sequences (k-th HasChunk/StoreChunk/GetChunk failing or slow, up to three per run) of the real ChopFile, Copy, ChunkStream and make pipeline; oracle: success implies a complete, valid target store and a correct index, and any failure returned to desync implies an error result",
         "sampling; failures are injected at store-call granularity in the bubble and as the k-th HTTP request answered 500 for the real chop / cache / make [--print-stats] / tar -i commands",
         TECH + " (seeded scheduler, k-th-call store faults, store-content oracle)"),
 "C07": ("exploration", "for each long-running library entry point a seeded schedule is recorded and then re-run with the context cancelled before every scheduling decision (exhaustive over the cancellation points of that schedule when it has <= 150 steps, sampled otherwise); oracle: a nil result implies the work is complete, the call returns and does not panic",
         "sampling over workloads and schedules, exhaustive over cancellation points of each short recorded schedule; in the bubble CLI signal handling is represented by cancelling the root context; a tenth of the cases deliver SIGINT/SIGTERM to the real binary while a gated server holds request k",
         TECH + " (seeded scheduler, cancellation-point enumeration, completeness oracle)"),
 "C01": ("exploration", "seeded search over blobs, seed sets (stale, truncated, empty, duplicate, aliasing the target), prior target contents, worker counts, invalid-seed actions, store faults, a seed mutator and worker interleavings of the real AssembleFile, with and without an emulated cloning filesystem; oracle: nil => target == blob, and termination with success where the statement demands it",
         "sampling; FICLONERANGE emulated in process; scheduling granularity = channel/lock/store ops (+ file-system calls in a third of the runs); regular files on tmpfs only",
         TECH + " (seeded scheduler, faulty store, FICLONERANGE emulator, output-vs-blob oracle)"),
 "C02": ("exploration", "seeded search over inputs, chunk-size triples, worker counts 1..16, worker interleavings and reader fragmentations of the real IndexFromFile / ChunkStream / Chunker against an independent reference chunker pinned to casync's own index",
         "sampling; inputs <= 64 KiB; reference implements the rule as the property states it (first test at min+1) and is self-checked against testdata/chunker.index at start",
         TECH + " (seeded scheduler, fragmenting/failing reader, reference-model oracle)"),
 "C12": ("exploration", "seeded search over caller interleavings, upstream completion orders and upstream outcomes of the real DedupQueue/WriteDedupQueue under a scheduler that owns every lock hand-off and channel operation; history oracle over invoke/return sequence numbers",
         "sampling, not enumeration; scheduling granularity = channel ops, lock acquisitions, upstream calls; upstream store is a stub",
         TECH + " (seeded scheduler + gated upstream, history check)"),
}
na = {
 "C13": "pure function tree -> bytes; nothing for a scheduler or fault injector to own (DESIGN.md §7 C13)",
 "C15": "stateless request -> response function over hostile inputs; no schedule, time, fault or crash in it (DESIGN.md §7 C15)",
 "C18": "adversarial-input property of a sequential decoder; simulation has nothing to vary (DESIGN.md §7 C18)",
 "C20": "file naming and zstd framing are pure functions of content and options; needs a cross-implementation build, not a simulator (DESIGN.md §7 C20)",
}
pending = {}  # id -> reason, for properties whose check is not built yet
for l in open(os.path.join(here, "properties.jsonl")):
    pid = json.loads(l)["id"]
    if pid not in claimed and pid not in na:
        pending[pid] = "check not built yet in this round (planned in DESIGN.md §7); not claimed"
checks = []
for pid in sorted(claimed):
    cat, text, note, tech = claimed[pid]
    checks.append({
        "property_id": pid,
        "quick_cmd": "bin/check %s quick" % pid,
        "thorough_cmd": "bin/check %s thorough" % pid,
        "evidence_file": "evidence/%s.json" % pid,
        "replay_cmd_template": "bin/check %s quick --replay {path}" % pid,
        "engine": "simrt",
        "level_claimed": {"category": cat, "text": text, "design_ref": "DESIGN.md §7 " + pid},
        "level_note": note,
        "technique": tech,
    })
m = {
 "version": 1,
 "setup_cmd": "bin/setup",
 "hooks": {
  "guard": "verif",
  "enable": "no hook code is committed to /repo: every check instruments the current /repo/*.go at build time (sim/instr) and builds with `go1.26.8 test -c -overlay <scratch>/overlay.json -tags verif`; the files of sim/inpkg are overlaid into package desync under build tag verif",
  "baseline_off_cmd": "cd /repo && go test -mod=mod -vet=off -count=1 -timeout 25m ./...",
  "source_commits": [],
  "add_only": True,
 },
 "engines": [{"name": "simrt", "path": "sim", "serves_properties": sorted(claimed),
   "kind_free_text": "deterministic simulation: seeded choice tape + own scheduler on a testing/synctest bubble (fake clock), build-time source instrumentation through go build -overlay, simulated stores/transports/readers, fault injection, tape minimisation and fresh-process replay"}],
 "checks": checks,
 "not_applicable": [{"property_id": k, "reason": v} for k, v in sorted({**na, **pending}.items())],
 "notes": "fix: commits in /repo and known findings are listed in known_findings.json; DESIGN.md records which checks catch which seeded changes",
}
json.dump(m, open(os.path.join(here, "MANIFEST.json"), "w"), indent=1)
print("claimed:", sorted(claimed), "na:", sorted(na), "pending:", sorted(pending))
