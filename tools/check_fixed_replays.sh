#!/bin/bash
# Audits known/fixed/*.json: each replay must reproduce on the parent of one of the fix commits recorded for its
# property in known_findings.json, and must run clean on /repo HEAD. Uses scratch worktrees under /tmp (removed).
set -u
cd /verif
python3 - <<'PY' > /dev/shm/fixed-commits.txt
import json,re
d=json.load(open('/verif/known_findings.json'))
for f in d['fixed']:
    m=re.search(r'property=(C\d+) ([0-9a-f]{7})',f)
    if m: print(m.group(1),m.group(2))
PY
for f in known/fixed/*.json; do
  id=$(basename $f | cut -d- -f1)
  head_res=$(timeout 900 bin/check $id quick --replay $f 2>&1 | grep -v "level=" | tail -1 | cut -c1-60)
  found=""
  for c in $(grep "^$id " /dev/shm/fixed-commits.txt | cut -d' ' -f2); do
    wt=/tmp/fixedwt-$c
    [ -d $wt ] || git -C /repo worktree add --detach $wt $c~1 >/dev/null 2>&1
    res=$(VERIF_REPO=$wt timeout 900 bin/check $id quick --replay $f 2>&1 | grep -v "level=" | grep "^VIOLATION\|REPLAY-RESULT kind\|KNOWN" | head -1)
    if [ -n "$res" ]; then found="$c~1"; break; fi
  done
  echo "$(basename $f): HEAD=[$head_res] reproduces-on=[$found]"
done
for wt in /tmp/fixedwt-*; do git -C /repo worktree remove --force $wt >/dev/null 2>&1; done
git -C /repo worktree prune
