#!/bin/bash
# seeded.sh <name> <mut-worktree> <demo-test-regex> <check-id> [more check ids]
# Confirms a sub-agent's property-breaking change in a fresh worktree of /repo HEAD, stores it under
# /verif/seeded/<name>/ and runs the given checks (quick tier) against it.
set -u
export GOFLAGS=-mod=mod GOPROXY=off GOSUMDB=off GOTOOLCHAIN=local
name=$1; mut=$2; demo=$3; shift 3
dst=/verif/seeded/$name
mkdir -p "$dst"
git -C "$mut" diff > "$dst/patch.diff"
demorel=zz_demo_test.go; pkg=.
if [ -f "$mut/cmd/desync/zz_demo_test.go" ]; then demorel=cmd/desync/zz_demo_test.go; pkg=./cmd/desync; fi
cp "$mut/$demorel" "$dst/zz_demo_test.go" 2>/dev/null
[ -f "$mut/NOTES.md" ] && cp "$mut/NOTES.md" "$dst/NOTES.md"
wt=/tmp/confirm-$name
git -C /repo worktree remove --force "$wt" >/dev/null 2>&1
git -C /repo worktree add --detach "$wt" >/dev/null 2>&1 || { echo "worktree failed"; exit 2; }
cp "$dst/zz_demo_test.go" "$wt/$demorel"
cd "$wt"
echo "== demo on unchanged HEAD (must pass)"
go test -vet=off -count=1 -run "$demo" $pkg 2>&1 | tail -3
orig=$?
echo "== apply patch"
git apply "$dst/patch.diff" || { echo "PATCH DOES NOT APPLY to HEAD"; exit 2; }
go build ./... || { echo "BUILD FAILS"; exit 2; }
echo "== demo with the change (must fail)"
go test -vet=off -count=1 -run "$demo" $pkg 2>&1 | tail -5
echo "== existing suite with the change (only TestMountIndex may fail)"
mv $demorel /tmp/zz_demo_$name.go
go test -vet=off -count=1 ./... 2>&1 | grep -v "^ok\|no test files" | grep "^--- FAIL\|^FAIL" | head
cd /verif
for id in "$@"; do
  echo "== bin/check $id quick against the change"
  VERIF_REPO="$wt" timeout 1500 bin/check "$id" quick 2>&1 | grep -v "level=\|^failed to retr\|missing from store\|^injected\|^skipping" | grep "^VIOL\|^viol\|^KNOWN\|^$id \|driver:" | cut -c1-300
  echo "rc=${PIPESTATUS[0]}"
done
git -C /repo worktree remove --force "$wt" >/dev/null 2>&1
rm -f /tmp/zz_demo_$name.go
