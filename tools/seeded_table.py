#!/usr/bin/env python3
# Rewrites the seeded-changes table at the end of DESIGN.md from seeded/*/meta.json
import json, os, glob
here = os.path.dirname(os.path.dirname(os.path.abspath(__file__)))
rows = []
for d in sorted(glob.glob(os.path.join(here, "seeded", "*"))):
    m = json.load(open(os.path.join(d, "meta.json")))
    rows.append("| %s | %s | %s | %s |" % (os.path.basename(d), m["property"], m["needs_to_manifest"], m["result"]))
table = "| seeded change | property | needs, to manifest | result |\n|---|---|---|---|\n" + "\n".join(rows) + "\n"
p = os.path.join(here, "DESIGN.md")
s = open(p).read()
a, b = "<!-- seeded-table-begin -->", "<!-- seeded-table-end -->"
if a in s:
    s = s[:s.index(a) + len(a)] + "\n" + table + s[s.index(b):]
else:
    s += "\n### 12.7 Table of seeded changes\n\n" + a + "\n" + table + b + "\n"
open(p, "w").write(s)
print(len(rows), "rows")
