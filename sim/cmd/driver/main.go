// Command driver runs one property check: instrument the repository under
// test, build the checks binary through an overlay, run worker processes,
// merge their results, minimise and replay violations, write evidence.
//
//	driver <ID> <quick|thorough> [--replay <file>]
//
// Exit status: 0 property held on everything explored (known findings are
// printed as KNOWN-FINDING lines), 1 a violation that replays, 2 tooling trouble.
package main

import (
	"bytes"
	"encoding/json"
	"fmt"
	"os"
	"os/exec"
	"path/filepath"
	"runtime"
	"sort"
	"strconv"
	"strings"
	"sync"
	"syscall"
	"time"

	"verif/instr"
	"verif/plan"
	"verif/wire"
)

type knownFile struct {
	Findings []struct {
		Property    string `json:"property"`
		Kind        string `json:"kind"`
		Site        string `json:"site"`
		Description string `json:"description"`
	} `json:"findings"`
	Fixed []string `json:"fixed"`
}

func die(format string, a ...any) {
	fmt.Fprintf(os.Stderr, "driver: "+format+"\n", a...)
	os.Exit(2)
}

var verifRoot = "/verif"

func main() {
	if len(os.Args) < 3 {
		die("usage: driver <ID> <quick|thorough> [--replay file]")
	}
	id, tier := os.Args[1], os.Args[2]
	replayFile := ""
	for i := 3; i < len(os.Args); i++ {
		if os.Args[i] == "--replay" && i+1 < len(os.Args) {
			replayFile = os.Args[i+1]
			if !filepath.IsAbs(replayFile) {
				base := os.Getenv("VERIF_ORIG_CWD")
				if base == "" {
					base, _ = os.Getwd()
				}
				replayFile = filepath.Join(base, replayFile)
			}
			i++
		}
	}
	if v := os.Getenv("VERIF_ROOT"); v != "" {
		verifRoot = v
	}
	p := plan.Props[id]
	if p == nil {
		die("unknown property %s", id)
	}
	if tier != "quick" && tier != "thorough" && tier != "determinism" {
		die("tier must be quick, thorough or determinism")
	}
	seed := uint64(1)
	if s := os.Getenv("VERIF_SEED"); s != "" {
		v, err := strconv.ParseUint(s, 10, 64)
		if err != nil {
			v2, err2 := strconv.ParseInt(s, 10, 64)
			if err2 != nil {
				die("bad VERIF_SEED %q", s)
			}
			v = uint64(v2)
		}
		seed = v
	}
	repo := "/repo"
	if v := os.Getenv("VERIF_REPO"); v != "" {
		repo = v
	}
	repo, _ = filepath.Abs(repo)
	jobs := runtime.NumCPU()
	if v := os.Getenv("VERIF_JOBS"); v != "" {
		jobs, _ = strconv.Atoi(v)
	}
	start := time.Now()
	scratch, err := os.MkdirTemp(wire.ScratchBase(), "verif-"+id+"-")
	if err != nil {
		die("%v", err)
	}
	code := 2
	defer func() {
		os.RemoveAll(scratch)
		os.Exit(code)
	}()

	// 1. instrument + build
	simDir := filepath.Join(verifRoot, "sim")
	rep, err := instr.Instrument(repo, filepath.Join(scratch, "src"), filepath.Join(simDir, "inpkg"))
	if err != nil {
		fmt.Fprintf(os.Stderr, "driver: instrumenting %s failed: %v\n", repo, err)
		return
	}
	gomod, err := os.ReadFile(filepath.Join(simDir, "go.mod"))
	if err != nil {
		fmt.Fprintln(os.Stderr, err)
		return
	}
	gomod = bytes.Replace(gomod, []byte("=> /repo"), []byte("=> "+repo), 1)
	os.WriteFile(filepath.Join(scratch, "go.mod"), gomod, 0644)
	sum, _ := os.ReadFile(filepath.Join(repo, "go.sum"))
	os.WriteFile(filepath.Join(scratch, "go.sum"), sum, 0644)
	bin := filepath.Join(scratch, "checks.test")
	gobin := "go1.26.8"
	cmd := exec.Command(gobin, "test", "-c", "-modfile", filepath.Join(scratch, "go.mod"), "-overlay", rep.Overlay, "-tags", "verif", "-vet=off", "-o", bin, "./checks")
	cmd.Dir = simDir
	cmd.Env = append(os.Environ(), "GOFLAGS=-mod=mod", "GOPROXY=off", "GOSUMDB=off", "GOTOOLCHAIN=local")
	if out, err := cmd.CombinedOutput(); err != nil {
		fmt.Fprintf(os.Stderr, "driver: build failed (tooling, not a verdict): %v\n%s\n", err, out)
		return
	}
	// the real, uninstrumented binary for the process-level parts (C06, C07, C08)
	desyncBin := ""
	if true { // every check may run the real binary for its process-level part
		desyncBin = filepath.Join(scratch, "desync")
		bc := exec.Command("go", "build", "-o", desyncBin, "./cmd/desync")
		bc.Dir = repo
		bc.Env = append(os.Environ(), "GOFLAGS=-mod=mod", "GOPROXY=off", "GOSUMDB=off", "GOTOOLCHAIN=local")
		if out, err := bc.CombinedOutput(); err != nil {
			fmt.Fprintf(os.Stderr, "driver: building the desync binary failed (tooling, not a verdict): %v\n%s\n", err, out)
			return
		}
	}
	buildS := time.Since(start).Seconds()

	runJob := func(cfg wire.Config, name string) (*wire.ShardResult, string, error) {
		cfg.Out = filepath.Join(scratch, name+".json")
		cfg.Scratch = filepath.Join(scratch, name+".d")
		os.MkdirAll(cfg.Scratch, 0755)
		defer os.RemoveAll(cfg.Scratch)
		j, _ := json.Marshal(cfg)
		c := exec.Command(bin, "-test.run", "^Test"+id+"$", "-test.timeout", "6h", "-test.v")
		c.Env = append(os.Environ(), "VERIF_CFG="+string(j), "VERIF_REPO="+repo, "VERIF_DESYNC_BIN="+desyncBin)
		c.Dir = cfg.Scratch
		var outBuf bytes.Buffer
		c.Stdout, c.Stderr = &outBuf, &outBuf
		err := c.Start()
		if err == nil {
			// watchdog: a worker that overruns its budget by far is killed (tooling trouble, never a verdict)
			limit := time.Duration(cfg.MaxSeconds*3+420) * time.Second // above the workers' own per-case limit (fw.caseWallLimit)
			done := make(chan error, 1)
			go func() { done <- c.Wait() }()
			select {
			case err = <-done:
			case <-time.After(limit):
				c.Process.Signal(syscall.SIGQUIT)
				select {
				case <-done:
				case <-time.After(5 * time.Second):
					c.Process.Kill()
					<-done
				}
				err = fmt.Errorf("worker %s exceeded its watchdog of %v and was killed", name, limit)
			}
		}
		out := outBuf.Bytes()
		if len(out) > 1<<20 {
			out = out[len(out)-(1<<20):]
		}
		b, rerr := os.ReadFile(cfg.Out)
		if rerr != nil {
			return nil, string(out), fmt.Errorf("worker %s produced no result (%v)", name, err)
		}
		os.Remove(cfg.Out)
		var r wire.ShardResult
		if uerr := json.Unmarshal(b, &r); uerr != nil {
			return nil, string(out), uerr
		}
		return &r, string(out), nil
	}

	known := loadKnown()

	if replayFile != "" {
		r, out, err := runJob(wire.Config{Property: id, Tier: tier, Mode: "replay", TapeFile: replayFile}, "replay")
		if err != nil {
			fmt.Fprintf(os.Stderr, "driver: replay failed: %v\n%s\n", err, out)
			return
		}
		var rp wire.Replay
		b, _ := os.ReadFile(replayFile)
		json.Unmarshal(b, &rp)
		if r.ReplayResult != nil && r.ReplayResult.Kind == rp.Kind && r.ReplayResult.Site == rp.Site {
			fmt.Printf("reproduced: kind=%s site=%s: %s\n", rp.Kind, rp.Site, r.ReplayResult.Detail)
			if d := known.match(id, rp.Kind, rp.Site); d != "" {
				fmt.Printf("KNOWN-FINDING: property=%s %s/%s %s\n", id, rp.Kind, rp.Site, d)
				code = 0
				return
			}
			fmt.Printf("VIOLATION property=%s replay=%s\n", id, replayFile)
			code = 1
			return
		}
		if r.ReplayResult != nil {
			fmt.Printf("replay produced a different violation: kind=%s site=%s: %s\n", r.ReplayResult.Kind, r.ReplayResult.Site, r.ReplayResult.Detail)
			fmt.Printf("VIOLATION property=%s replay=%s\n", id, replayFile)
			code = 1
			return
		}
		fmt.Printf("not reproduced on this tree (replay ran clean)\n")
		code = 0
		return
	}

	if tier == "determinism" {
		// the same cases in several processes at GOMAXPROCS 1, 4 and 16: every per-case line must be identical
		ncases := 300
		if v := os.Getenv("VERIF_CASES"); v != "" {
			ncases, _ = strconv.Atoi(v)
		}
		type run struct {
			procs string
			lines []string
		}
		var runs []run
		var mu sync.Mutex
		var wg sync.WaitGroup
		bad := false
		for rep := 0; rep < 2; rep++ {
			for _, procs := range []string{"1", "4", "16"} {
				for shard := 0; shard < 5; shard++ {
					wg.Add(1)
					go func(rep int, procs string, shard int) {
						defer wg.Done()
						os.Setenv("VERIF_NOOP", "")
						cfg := wire.Config{Property: id, Tier: "quick", Seed: seed, Shard: shard, MaxCases: ncases / 5, Mode: "hashes"}
						cfg.Out = filepath.Join(scratch, fmt.Sprintf("det-%d-%s-%d.json", rep, procs, shard))
						cfg.Scratch = filepath.Join(scratch, fmt.Sprintf("det-%d-%s-%d.d", rep, procs, shard))
						os.MkdirAll(cfg.Scratch, 0755)
						j, _ := json.Marshal(cfg)
						c := exec.Command(bin, "-test.run", "^Test"+id+"$", "-test.timeout", "1h")
						c.Env = append(os.Environ(), "VERIF_CFG="+string(j), "VERIF_REPO="+repo, "VERIF_DESYNC_BIN=", "GOMAXPROCS="+procs)
						c.Dir = cfg.Scratch
						out, err := c.CombinedOutput()
						b, rerr := os.ReadFile(cfg.Out)
						var r wire.ShardResult
						if rerr != nil || json.Unmarshal(b, &r) != nil {
							mu.Lock()
							bad = true
							fmt.Fprintf(os.Stderr, "driver: determinism worker failed: %v\n%s\n", err, tail(string(out), 2000))
							mu.Unlock()
							return
						}
						mu.Lock()
						runs = append(runs, run{fmt.Sprintf("rep%d/procs%s/shard%d", rep, procs, shard), r.HashLines})
						mu.Unlock()
					}(rep, procs, shard)
				}
			}
		}
		wg.Wait()
		ref := map[string]string{} // case seed -> line
		diverged := 0
		total := 0
		for _, r := range runs {
			for _, l := range r.lines {
				total++
				key := strings.SplitN(l, " ", 2)[0]
				if old, ok := ref[key]; ok {
					if old != l {
						diverged++
						if diverged <= 5 {
							fmt.Printf("DIVERGED case %s (%s):\n  %s\n  %s\n", key, r.procs, old, l)
						}
					}
				} else {
					ref[key] = l
				}
			}
		}
		fmt.Printf("%s determinism: %d distinct cases, %d executions in %d processes at GOMAXPROCS 1/4/16 x 2 repetitions, %d diverged\n", id, len(ref), total, len(runs), diverged)
		if bad {
			code = 2
		} else if diverged > 0 {
			code = 2
		} else {
			code = 0
		}
		return
	}

	// 2. plan jobs
	tp := p.Quick
	if tier == "thorough" {
		tp = p.Thorough
	}
	if v := os.Getenv("VERIF_CASES"); v != "" {
		tp.Cases, _ = strconv.Atoi(v)
	}
	njobs := (tp.Cases + tp.PerJob - 1) / tp.PerJob
	if njobs < 1 {
		njobs = 1
	}
	type jobRes struct {
		r           *wire.ShardResult
		out         string
		err         error
		shard, part int
	}
	var results []jobRes
	var resMu sync.Mutex
	var wg sync.WaitGroup
	sem := make(chan struct{}, jobs)
	for i := 0; i < njobs; i++ {
		wg.Add(1)
		go func(i int) {
			defer wg.Done()
			sem <- struct{}{}
			defer func() { <-sem }()
			n := tp.PerJob
			if (i+1)*tp.PerJob > tp.Cases {
				n = tp.Cases - i*tp.PerJob
			}
			// a worker that asks to be recycled is continued by a fresh process at the case it stopped at
			first, left := 0, float64(tp.Seconds)
			for part := 0; first < n && part < 1000; part++ {
				r, out, err := runJob(wire.Config{Property: id, Tier: tier, Seed: seed, Shard: i, NShards: njobs, FirstCase: first, MaxCases: n - first, MaxSeconds: left, Mode: "run"}, fmt.Sprintf("job%d.%d", i, part))
				resMu.Lock()
				results = append(results, jobRes{r, out, err, i, part})
				resMu.Unlock()
				if err != nil || r == nil || !r.Recycle || r.Cases == 0 {
					break
				}
				first += r.Cases
				if left -= r.WallS; left < 5 {
					break
				}
			}
		}(i)
	}
	wg.Wait()
	sort.Slice(results, func(a, b int) bool {
		if results[a].shard != results[b].shard {
			return results[a].shard < results[b].shard
		}
		return results[a].part < results[b].part
	})

	// 3. merge
	tooling := false
	merged := &wire.ShardResult{Faults: map[string]int64{}, Probes: map[string]int64{}, Classes: map[string]int64{}, Outcomes: map[string]int64{}, ViolCount: map[string]int64{}}
	ids := map[uint64]struct{}{}
	firstViol := map[string]wire.Replay{}
	var fpOrder []string
	for i, jr := range results {
		if jr.err != nil {
			fmt.Fprintf(os.Stderr, "driver: job %d: %v\n%s\n", i, jr.err, tail(jr.out, 4000))
			tooling = true
			continue
		}
		r := jr.r
		merged.Cases += r.Cases
		merged.SubEvals += r.SubEvals
		merged.Steps += r.Steps
		merged.Preemptions += r.Preemptions
		merged.SimNanos += r.SimNanos
		merged.Adhoc += r.Adhoc
		for k, v := range r.Faults {
			merged.Faults[k] += v
		}
		for k, v := range r.Probes {
			merged.Probes[k] += v
		}
		for k, v := range r.Classes {
			merged.Classes[k] += v
		}
		for k, v := range r.Outcomes {
			merged.Outcomes[k] += v
		}
		for k, v := range r.ViolCount {
			merged.ViolCount[k] += v
		}
		for _, x := range r.Identities {
			ids[x] = struct{}{}
		}
		merged.IdentCapped = merged.IdentCapped || r.IdentCapped
		if len(merged.Samples) < 6 {
			for _, s := range r.Samples {
				if len(merged.Samples) < 6 {
					merged.Samples = append(merged.Samples, s)
				}
			}
		}
		for _, v := range r.Violations {
			fp := v.Kind + "|" + v.Site
			if _, ok := firstViol[fp]; !ok {
				firstViol[fp] = v
				fpOrder = append(fpOrder, fp)
			}
		}
		for _, e := range r.Errors {
			fmt.Fprintf(os.Stderr, "driver: job %d harness error: %s\n", i, e)
			tooling = true
		}
	}
	if merged.Adhoc > 0 {
		fmt.Fprintf(os.Stderr, "driver: %d unregistered goroutines entered the scheduler (harness bug)\n", merged.Adhoc)
		tooling = true
	}

	// 4. violations: minimise, replay in a fresh process, classify
	sort.Strings(fpOrder)
	nViol := 0
	var knownFired []string
	os.MkdirAll(filepath.Join(verifRoot, "replays"), 0755)
	for _, fp := range fpOrder {
		v := firstViol[fp]
		vf := filepath.Join(scratch, "viol.json")
		j, _ := json.Marshal(v)
		os.WriteFile(vf, j, 0644)
		final := v
		var mr *wire.ShardResult
		var out string
		var err error
		if v.Kind == "hang" && v.Site == "case watchdog" {
			// every candidate that still hangs would cost the full per-case limit and take the minimiser down with it
			mr, err = &wire.ShardResult{}, nil
		} else {
			mr, out, err = runJob(wire.Config{Property: id, Tier: tier, Mode: "minimize", TapeFile: vf}, "minimize")
			// process-level parts run the real binary: the schedule inside that child is the kernel's
			for try := 0; processLevel(v.Site) && err == nil && mr.Minimised == nil && try < 3; try++ {
				mr, out, err = runJob(wire.Config{Property: id, Tier: tier, Mode: "minimize", TapeFile: vf}, "minimize")
			}
		}
		if err != nil {
			fmt.Fprintf(os.Stderr, "driver: minimiser failed for %s: %v\n%s\n", fp, err, tail(out, 2000))
		} else if mr.Minimised != nil {
			final = *mr.Minimised
		} else {
			fmt.Fprintf(os.Stderr, "driver: violation %s did not reproduce inside the minimiser\n", fp)
		}
		dest := filepath.Join(verifRoot, "replays", fmt.Sprintf("%s-%s-%d.json", id, sanitize(v.Kind+"-"+v.Site), v.CaseSeed))
		j, _ = json.MarshalIndent(final, "", " ")
		os.WriteFile(dest, j, 0644)
		rr, out, err := runJob(wire.Config{Property: id, Tier: tier, Mode: "replay", TapeFile: dest}, "replay")
		sameViol := func() bool {
			return err == nil && rr.ReplayResult != nil && rr.ReplayResult.Kind == v.Kind && rr.ReplayResult.Site == v.Site
		}
		for try := 1; processLevel(v.Site) && !sameViol() && try < 5; try++ {
			fmt.Fprintf(os.Stderr, "driver: process-level violation %s: fresh-process replay attempt %d did not show it, trying again\n", fp, try)
			rr, out, err = runJob(wire.Config{Property: id, Tier: tier, Mode: "replay", TapeFile: dest}, "replay")
		}
		if err != nil || rr.ReplayResult == nil || rr.ReplayResult.Kind != v.Kind || rr.ReplayResult.Site != v.Site {
			fmt.Fprintf(os.Stderr, "driver: violation %s (%s) did NOT replay in a fresh process: simulator nondeterminism, not reported as a finding\n%s\n", fp, v.Detail, tail(out, 2000))
			tooling = true
			os.Remove(dest)
			continue
		}
		if d := known.match(id, v.Kind, v.Site); d != "" {
			fmt.Printf("KNOWN-FINDING: property=%s %s/%s (%d cases) %s\n", id, v.Kind, v.Site, merged.ViolCount[fp], d)
			knownFired = append(knownFired, fp)
			os.Remove(dest) // known findings keep their committed replay under known/
			continue
		}
		nViol++
		fmt.Printf("violation kind=%s site=%s cases=%d: %s\n", v.Kind, v.Site, merged.ViolCount[fp], final.Detail)
		fmt.Printf("VIOLATION property=%s replay=%s\n", id, dest)
	}

	// 5. evidence
	probes := map[string]int64{}
	var reached []string
	for k, v := range merged.Probes {
		if strings.HasPrefix(k, "site ") {
			reached = append(reached, fmt.Sprintf("%s x%d", strings.TrimPrefix(k, "site "), v))
		} else {
			probes[k] = v
		}
	}
	sort.Strings(reached)
	wall := time.Since(start).Seconds()
	distinct := len(ids)
	cov := map[string]any{
		"evaluations":            merged.Cases,
		"distinct_nontrivial":    distinct,
		"distinct_capped":        merged.IdentCapped,
		"rule":                   p.Rule,
		"samples":                merged.Samples,
		"sub_evaluations":        merged.SubEvals,
		"sched_steps":            merged.Steps,
		"preemptions":            merged.Preemptions,
		"simulated_seconds":      float64(merged.SimNanos) / 1e9,
		"runs_per_hour":          int64(float64(merged.Cases) / (wall - buildS + 0.001) * 3600),
		"seeds":                  fmt.Sprintf("VERIF_SEED=%d, %d worker processes, case seed = splitmix(seed, shard, i)", seed, njobs),
		"faults_fired":           merged.Faults,
		"probes":                 probes,
		"sites_reached":          map[string]any{"reached": len(reached), "of_instrumented": len(rep.Sites), "note": "instrumented scheduling and file-system points of package desync (file:line) hit at least once in this run; the remainder belongs to code this property does not exercise", "reached_sites": reached},
		"config_classes":         len(merged.Classes),
		"outcomes":               merged.Outcomes,
		"instrumentation":        map[string]any{"files": rep.Files, "yield_sites": rep.YieldSites, "io_sites": rep.IOSites, "uncontrolled_selects": rep.Uncontrolled},
		"components_real":        p.Real,
		"components_stub":        p.Stub,
		"known_findings_fired":   knownFired,
		"violation_fingerprints": merged.ViolCount,
		"build_s":                buildS,
		"repo":                   repo,
	}
	ev := map[string]any{
		"property_id": id, "tier": tier, "seed": int64(seed), "level": p.Level,
		"coverage": cov, "assumptions": p.Assumptions, "wall_s": wall, "violations": nViol,
	}
	if !tooling || nViol > 0 {
		// evidence describes the repository itself; runs against another tree (seeded changes,
		// older commits via VERIF_REPO) must not overwrite it
		evDir := filepath.Join(verifRoot, "evidence")
		if repo != "/repo" {
			evDir = filepath.Join(wire.ScratchBase(), "verif-evidence-other-tree")
		}
		if v := os.Getenv("VERIF_EVIDENCE_DIR"); v != "" {
			evDir = v
		}
		os.MkdirAll(evDir, 0755)
		j, _ := json.MarshalIndent(ev, "", " ")
		os.WriteFile(filepath.Join(evDir, id+".json"), j, 0644)
	}
	fmt.Printf("%s %s: cases=%d distinct_nontrivial=%d steps=%d faults=%v violations=%d known=%d wall=%.1fs\n", id, tier, merged.Cases, distinct, merged.Steps, merged.Faults, nViol, len(knownFired), wall)
	switch {
	case nViol > 0:
		code = 1
	case tooling:
		code = 2
	default:
		code = 0
	}
}

func (k *knownFile) match(prop, kind, site string) string {
	if k == nil {
		return ""
	}
	for _, f := range k.Findings {
		if f.Property == prop && f.Kind == kind && f.Site == site {
			return f.Description
		}
	}
	return ""
}

func loadKnown() *knownFile {
	b, err := os.ReadFile(filepath.Join(verifRoot, "known_findings.json"))
	if err != nil {
		return &knownFile{}
	}
	var k knownFile
	if err := json.Unmarshal(b, &k); err != nil {
		die("known_findings.json: %v", err)
	}
	return &k
}

func tail(s string, n int) string {
	if len(s) > n {
		return "..." + s[len(s)-n:]
	}
	return s
}

func sanitize(s string) string {
	var b strings.Builder
	for _, r := range s {
		switch {
		case r >= 'a' && r <= 'z', r >= 'A' && r <= 'Z', r >= '0' && r <= '9', r == '-', r == '_', r == '.':
			b.WriteRune(r)
		default:
			b.WriteByte('_')
		}
	}
	if b.Len() > 60 {
		return b.String()[:60]
	}
	return b.String()
}

// processLevel reports whether a violation site belongs to a part that runs the real desync binary as a
// child process ("desync <command> ..."): there the simulator decides inputs, held requests, signals and the
// syscall at which the child dies, but not the goroutine schedule inside the child.
func processLevel(site string) bool { return strings.HasPrefix(site, "desync ") }
