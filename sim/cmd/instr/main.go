// Command instr instruments a desync tree: instr <repo> <outdir> <inpkgdir>
package main

import (
	"encoding/json"
	"fmt"
	"os"

	"verif/instr"
)

func main() {
	if len(os.Args) != 4 {
		fmt.Fprintln(os.Stderr, "usage: instr <repo> <outdir> <inpkgdir>")
		os.Exit(2)
	}
	rep, err := instr.Instrument(os.Args[1], os.Args[2], os.Args[3])
	if err != nil {
		fmt.Fprintln(os.Stderr, "instrument:", err)
		os.Exit(2)
	}
	j, _ := json.MarshalIndent(rep, "", " ")
	fmt.Println(string(j))
}
