package ref

import (
	"bytes"
	"fmt"
	"os"
)

// SelfCheck pins the reference chunker and caibx codec to casync's own output
// (testdata/chunker.index was produced by casync from testdata/chunker.input).
func SelfCheck(repo string) error {
	in, err := os.ReadFile(repo + "/testdata/chunker.input")
	if err != nil {
		return err
	}
	ib, err := os.ReadFile(repo + "/testdata/chunker.index")
	if err != nil {
		return err
	}
	idx, err := ParseCaibx(ib)
	if err != nil {
		return err
	}
	got := Chunks(in, idx.Min, idx.Avg, idx.Max, idx.Flags&FlagSHA512256 == 0)
	if len(got) != len(idx.Chunks) {
		return fmt.Errorf("reference chunker: %d chunks, casync index has %d", len(got), len(idx.Chunks))
	}
	for i := range got {
		if got[i] != idx.Chunks[i] {
			return fmt.Errorf("reference chunker: chunk %d differs from casync index", i)
		}
	}
	if !bytes.Equal(EncodeCaibx(idx), ib) {
		return fmt.Errorf("reference caibx encoder does not reproduce the casync file")
	}
	return nil
}
