package ref

import (
	"os"
	"testing"
)

func TestRefSelfCheck(t *testing.T) {
	repo := os.Getenv("VERIF_REPO")
	if repo == "" {
		repo = "/repo"
	}
	if err := SelfCheck(repo); err != nil {
		t.Fatal(err)
	}
}
