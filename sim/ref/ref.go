// Package ref holds small reference models that are independent of the code
// under test: the casync chunking rule, a caibx parser/encoder. Nothing here
// imports desync.
package ref

import (
	"crypto/sha256"
	"crypto/sha512"
	"encoding/binary"
	"errors"
	"fmt"
	"math/bits"
)

const Window = 48

type Chunk struct {
	Start, Size uint64
	ID          [32]byte
}

// Discriminator is casync's CA_CHUNKER_DISCRIMINATOR_FROM_AVG.
func Discriminator(avg uint64) uint32 {
	return uint32(float64(avg) / (-1.42888852e-7*float64(avg) + 1.33237515))
}

// windowHash computes the buzhash of a 48 byte window from scratch.
func windowHash(w []byte) uint32 {
	var h uint32
	for i, b := range w {
		h ^= bits.RotateLeft32(buzTable[b], Window-1-i)
	}
	return h
}

// Cuts returns the chunk boundaries (end offsets) of data under the casync
// rule: a chunk ends at the first position p > min (relative to the chunk
// start) at which the hash of the 48 bytes before p meets the discriminator,
// at max, or at the end of the data; a remainder of at most min bytes is one
// chunk.
func Cuts(data []byte, min, avg, max uint64) []uint64 {
	disc := Discriminator(avg)
	var cuts []uint64
	pos := uint64(0)
	n := uint64(len(data))
	for pos < n {
		rem := n - pos
		if rem <= min {
			cuts = append(cuts, n)
			break
		}
		m := max
		if rem < max {
			m = rem
		}
		cut := m
		for p := min + 1; p < m; p++ {
			if windowHash(data[pos+p-Window:pos+p])%disc == disc-1 {
				cut = p
				break
			}
		}
		pos += cut
		cuts = append(cuts, pos)
	}
	return cuts
}

// Sum is the chunk digest: SHA512/256 (default) or SHA256.
func Sum(b []byte, sha256mode bool) [32]byte {
	if sha256mode {
		return sha256.Sum256(b)
	}
	return sha512.Sum512_256(b)
}

// Chunks returns the reference chunk table of data.
func Chunks(data []byte, min, avg, max uint64, sha256mode bool) []Chunk {
	var out []Chunk
	start := uint64(0)
	for _, c := range Cuts(data, min, avg, max) {
		out = append(out, Chunk{Start: start, Size: c - start, ID: Sum(data[start:c], sha256mode)})
		start = c
	}
	return out
}

// ---- caibx ----

const (
	FormatIndex       = 0x96824d9c7b129ff9
	FormatTable       = 0xe75b9e112f17417d
	TableTailMarker   = 0x4b4f050e5549ecd1
	FlagSHA512256     = 0x2000000000000000
	FlagExcludeNoDump = 0x8000000000000000
)

type Index struct {
	Flags, Min, Avg, Max uint64
	Chunks               []Chunk
}

// ParseCaibx is a strict, independent parser of the caibx/caidx layout.
func ParseCaibx(b []byte) (*Index, error) {
	u := func(off int) uint64 { return binary.LittleEndian.Uint64(b[off:]) }
	if len(b) < 48+16+40 {
		return nil, errors.New("short file")
	}
	if u(0) != 48 || u(8) != FormatIndex {
		return nil, errors.New("bad index header")
	}
	idx := &Index{Flags: u(16), Min: u(24), Avg: u(32), Max: u(40)}
	if u(48) != ^uint64(0) || u(56) != FormatTable {
		return nil, errors.New("bad table header")
	}
	off := 64
	var last uint64
	for {
		if off+8 > len(b) {
			return nil, errors.New("truncated table")
		}
		o := u(off)
		if o == 0 {
			break
		}
		if off+40 > len(b) {
			return nil, errors.New("truncated item")
		}
		if o <= last {
			return nil, fmt.Errorf("offsets not increasing at item %d", len(idx.Chunks))
		}
		var c Chunk
		c.Start, c.Size = last, o-last
		copy(c.ID[:], b[off+8:off+40])
		idx.Chunks = append(idx.Chunks, c)
		last = o
		off += 40
	}
	// tail: zero offset (8) zero (8) index offset (8) table size (8) marker (8)
	if off+40 != len(b) {
		return nil, fmt.Errorf("tail record not at end of file: %d trailing bytes", len(b)-off-40)
	}
	if u(off+8) != 0 {
		return nil, errors.New("tail zero fill")
	}
	if u(off+16) != 48 {
		return nil, fmt.Errorf("tail index offset %d != 48", u(off+16))
	}
	if want := uint64(len(b) - 48); u(off+24) != want {
		return nil, fmt.Errorf("tail table size %d != %d", u(off+24), want)
	}
	if u(off+32) != TableTailMarker {
		return nil, errors.New("tail marker")
	}
	return idx, nil
}

// EncodeCaibx writes the layout from scratch.
func EncodeCaibx(idx *Index) []byte {
	var b []byte
	p := func(v ...uint64) {
		for _, x := range v {
			b = binary.LittleEndian.AppendUint64(b, x)
		}
	}
	p(48, FormatIndex, idx.Flags, idx.Min, idx.Avg, idx.Max)
	p(^uint64(0), FormatTable)
	var off uint64
	for _, c := range idx.Chunks {
		off += c.Size
		p(off)
		b = append(b, c.ID[:]...)
	}
	p(0, 0, 48, uint64(len(b)-48+40), TableTailMarker)
	return b
}
