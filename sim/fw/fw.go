// Package fw is the per-check framework: it turns one seed into a sequence of
// cases, each driven by one tape, collects coverage, records violations with
// their tapes, and replays / minimises tapes.
package fw

import (
	"encoding/json"
	"fmt"
	"hash/fnv"
	"math/rand/v2"
	"os"
	"path/filepath"
	"runtime"
	"sort"
	"strings"
	"testing"
	"testing/synctest"
	"time"

	"verif/simrt"
	"verif/wire"

	"github.com/folbricht/desync"
)

// Check describes one property check.
type Check struct {
	ID          string
	Level       string // exploration | fault_enumeration
	Rule        string
	Assumptions []string
	Real        []string // components running real code
	Stub        []string // components that are harness stubs
	// Run executes one case.
	Run func(c *Case)
	// Cases per shard and wall-clock cap per shard, per tier.
	QuickCases, ThoroughCases     int
	QuickSeconds, ThoroughSeconds float64
}

// Case is one execution driven by one tape.
type Case struct {
	T          *simrt.Tape
	Seed       uint64
	tt         *testing.T
	dir        string
	scratch    string
	res        *ShardResult
	viol       *Violation
	notes      []string
	class      string
	keyParts   []string
	nontriv    bool
	steps      int
	preempt    int
	simNanos   int64
	hashes     []uint64
	faults     map[string]int64
	probes     map[string]int64
	subEvals   int64
	outcome    string
	harnessErr string
	trace      []string
	Tier       string
	Replaying  bool
}

func (c *Case) Draw(n int, label string) int { return c.T.Draw(n, label) }
func (c *Case) Bool(label string) bool       { return c.T.Draw(2, label) == 1 }

// Range draws an int in [lo, hi].
func (c *Case) Range(lo, hi int, label string) int {
	if hi <= lo {
		return lo
	}
	return lo + c.T.Draw(hi-lo+1, label)
}

// Chance is true with probability num/den.
func (c *Case) Chance(num, den int, label string) bool { return c.T.Draw(den, label) < num }

// ChanceAdded is Chance for a branch that was added to a generator after replay files had been written: replaying a
// file that does not know the label takes the old path (false) without consuming a tape value.
func (c *Case) ChanceAdded(num, den int, label string) bool {
	return c.T.DrawOptional(den, label, den-1) < num
}

// Rand returns a PRNG whose seed is drawn from the tape; used to expand bulk
// data (blob bytes) without putting every byte on the tape.
func (c *Case) Rand(label string) *rand.Rand {
	s := c.T.Draw(1<<20, label)
	return rand.New(rand.NewPCG(uint64(s), 0xda3e39cb94b95bdb))
}

// Dir returns a per-case scratch directory (removed after the case).
func (c *Case) Dir() string {
	if c.dir == "" {
		d, err := os.MkdirTemp(c.scratch, "case")
		if err != nil {
			panic(err)
		}
		c.dir = d
	}
	return c.dir
}

func (c *Case) Note(format string, a ...any) { c.notes = append(c.notes, fmt.Sprintf(format, a...)) }
func (c *Case) Class(s string)               { c.class = s }
func (c *Case) Key(parts ...any)             { c.keyParts = append(c.keyParts, fmt.Sprint(parts...)) }
func (c *Case) NonTrivial()                  { c.nontriv = true }
func (c *Case) Fault(kind string)            { c.faults[kind]++; c.nontriv = true }
func (c *Case) FaultN(kind string, n int64) {
	c.faults[kind] += n
	if n > 0 {
		c.nontriv = true
	}
}
func (c *Case) Probe(name string) { c.probes[name]++ }
func (c *Case) SubEval(n int64)   { c.subEvals += n }
func (c *Case) Outcome(s string)  { c.outcome = s }
func (c *Case) HarnessError(format string, a ...any) {
	if c.harnessErr == "" {
		c.harnessErr = fmt.Sprintf(format, a...)
	}
}

// Violate records the first violation of the case.
func (c *Case) Violate(kind, site, format string, a ...any) {
	if c.viol == nil {
		c.viol = &Violation{Kind: kind, Site: site, Detail: fmt.Sprintf(format, a...)}
	}
}
func (c *Case) Violated() bool { return c.viol != nil }

// SimResult summarises one scheduled bubble.
type SimResult struct {
	RT       *simrt.RT
	Hang     bool
	Aborted  string
	Panics   []simrt.PanicInfo
	Deadlock string // synctest message when leaving the bubble with blocked goroutines
	Leaked   int    // goroutines of the system under test still alive after every harness task returned
}

// Sim runs body inside a fresh synctest bubble under the seeded scheduler.
// setup is called with the runtime before the scheduler starts and must
// start at least one task with rt.Go.
func (c *Case) Sim(setup func(rt *simrt.RT)) *SimResult { return c.SimWith(c.T, setup) }

// SimWith is Sim with an explicit choice source (used to re-run a recorded
// schedule while enumerating a fault/cancellation point).
func (c *Case) SimWith(d simrt.Drawer, setup func(rt *simrt.RT)) *SimResult {
	var rt *simrt.RT
	res := &SimResult{}
	func() {
		defer func() {
			if r := recover(); r != nil {
				res.Deadlock = fmt.Sprint(r)
			}
		}()
		synctest.Test(c.tt, func(t *testing.T) {
			// everything the scheduler blocks on must be created inside the bubble
			rt = simrt.New(d)
			rt.KeepTrace = c.Replaying
			res.RT = rt
			desync.VerifInstall(rt)
			defer desync.VerifInstall(nil)
			setup(rt)
			rt.Run()
		})
	}()
	desync.VerifInstall(nil)
	res.Hang = rt.Hang
	res.Aborted = rt.AbortReason
	res.Panics = rt.Panics
	c.steps += rt.Steps
	c.preempt += rt.Preemptions
	c.simNanos += int64(rt.SimTime)
	c.hashes = append(c.hashes, rt.Hash())
	if rt.Preemptions > 0 {
		c.nontriv = true
	}
	if rt.Adhoc > 0 {
		c.res.Adhoc += rt.Adhoc
	}
	for k, v := range rt.SiteHits {
		if strings.Contains(k, ".go:") && !strings.HasSuffix(k, "+") && !strings.HasSuffix(k, "$") && !strings.HasPrefix(k, "io:io:") {
			c.probes["site "+k] += int64(v)
		}
	}
	if rt.Foreign > 0 {
		c.probes["foreign-goroutine-hook-calls"] += int64(rt.Foreign)
	}
	if c.Replaying {
		c.trace = rt.Trace
	}
	res.Leaked = rt.Leaked
	if rt.Leaked > 0 {
		c.probes["leaked-goroutines"]++
	}
	if res.Deadlock != "" && rt.AbortReason == "" && rt.Leaked == 0 {
		// the scheduler thought everything finished but goroutines remain
		res.Hang = true
		res.Aborted = "leftover-goroutines"
	}
	return res
}

// StdSimViolations turns panics / hangs / livelocks of a run into violations
// (for properties that promise termination) and returns true if one was raised.
func (c *Case) StdSimViolations(sr *SimResult, entry string, hangIsViolation bool) bool {
	if len(sr.Panics) > 0 {
		p := sr.Panics[0]
		c.Violate("panic", p.Site, "task %s panicked in %s: %s", p.Task, p.Site, p.Value)
		return true
	}
	if sr.Aborted == "step-budget" {
		c.Violate("livelock", entry, "step budget of %d exceeded", sr.RT.MaxSteps)
		return true
	}
	if sr.Aborted == "spin" {
		c.Violate("livelock", entry, "a task passed a million file-system points without reaching a scheduling point")
		return true
	}
	if sr.Hang {
		if hangIsViolation {
			c.Violate("hang", entry, "no task can run and none is sleeping: %s %s", strings.Join(sr.RT.HangTasks, ","), sr.Deadlock)
		} else {
			c.HarnessError("hang in %s: %s %s", entry, strings.Join(sr.RT.HangTasks, ","), sr.Deadlock)
		}
		return true
	}
	return false
}

type (
	Violation   = wire.Violation
	Config      = wire.Config
	Replay      = wire.Replay
	Sample      = wire.Sample
	ShardResult = wire.ShardResult
)

func ScratchBase() string { return wire.ScratchBase() }

const identCap = 150000

func splitmix(x uint64) uint64 {
	x += 0x9e3779b97f4a7c15
	x = (x ^ (x >> 30)) * 0xbf58476d1ce4e5b9
	x = (x ^ (x >> 27)) * 0x94d049bb133111eb
	return x ^ (x >> 31)
}

// CaseSeed derives the seed of case i of a shard.
func CaseSeed(seed uint64, shard, i int) uint64 {
	return splitmix(splitmix(seed) ^ uint64(shard)*0x100000001b3 + uint64(i))
}

// caseWallLimit is how long one case may take in real time. Cases run for milliseconds in the bubble and for seconds
// at process level (each child has its own, shorter watchdog); a case still running after this long sits in a loop
// that passes no scheduling or file-system point, which nothing inside the process can interrupt.
const caseWallLimit = 200 * time.Second

// stuck is called from a timer goroutine when a case exceeds caseWallLimit: the case is recorded as a hang with the
// choices made so far, the result is written and the process ends (the looping goroutine cannot be stopped).
func stuck(chk *Check, c *Case, cfg *Config, res *ShardResult, start time.Time) {
	v := &Violation{Kind: "hang", Site: "case watchdog", Detail: fmt.Sprintf("the case (class %q) was still running after %v of wall-clock time: a loop that passes no scheduling or file-system point; notes: %v", c.class, caseWallLimit, c.notes)}
	switch cfg.Mode {
	case "run":
		res.Cases++
		res.ViolCount[v.FP()]++
		res.Violations = append(res.Violations, Replay{Property: chk.ID, Tier: cfg.Tier, CaseSeed: c.Seed, Kind: v.Kind, Site: v.Site, Detail: v.Detail, Tape: append([]int(nil), c.T.Rec...), Notes: c.notes})
		res.Recycle = true // the driver continues the job after this case in a fresh process
	case "replay":
		res.Cases = 1
		res.ReplayResult = v
		fmt.Printf("REPLAY-RESULT kind=%s site=%s detail=%s\n", v.Kind, v.Site, v.Detail)
	default:
		os.Exit(3) // minimiser: this candidate hangs; the driver falls back to the unminimised tape
	}
	res.WallS = time.Since(start).Seconds()
	if cfg.Out != "" {
		j, _ := json.Marshal(res)
		os.WriteFile(cfg.Out, j, 0644)
	}
	os.Exit(0)
}

func runCase(t *testing.T, chk *Check, tape *simrt.Tape, caseSeed uint64, cfg *Config, res *ShardResult, replaying bool) *Case {
	c := &Case{T: tape, Seed: caseSeed, tt: t, scratch: cfg.Scratch, res: res, faults: map[string]int64{}, probes: map[string]int64{}, Tier: cfg.Tier, Replaying: replaying}
	started := time.Now()
	wd := time.AfterFunc(caseWallLimit, func() { stuck(chk, c, cfg, res, started) })
	defer wd.Stop()
	func() {
		defer func() {
			if r := recover(); r != nil {
				buf := make([]byte, 8192)
				c.HarnessError("harness panic: %v\n%s", r, string(buf[:stackInto(buf)]))
			}
		}()
		chk.Run(c)
	}()
	if c.dir != "" {
		os.RemoveAll(c.dir)
	}
	return c
}

func (c *Case) identity() uint64 {
	h := fnv.New64a()
	if len(c.hashes) == 0 {
		// no scheduled bubble in this case: the tape itself identifies the execution
		fmt.Fprintf(h, "%v|", c.T.Rec)
	}
	fmt.Fprintf(h, "%s|%v|%v|%s", c.class, c.keyParts, c.hashes, c.outcome)
	return h.Sum64()
}

// Main is called from each TestCxx function.
func Main(t *testing.T, chk *Check) {
	desync.Compress([]byte("warm the zstd pools outside any bubble"))
	if c, err := desync.Compress(make([]byte, 100)); err == nil {
		desync.Decompress(nil, c)
	}
	// the encoder and decoder keep one lazily built state per processor and hand them out in turn: touch them
	// all, so that no later call pays the one-off allocation (C19 measures allocations)
	for i := 0; i < 64; i++ {
		w := make([]byte, 1+i*37)
		for j := range w {
			w[j] = byte(i * j)
		}
		if c, err := desync.Compress(w); err == nil {
			desync.Decompress(nil, c)
		}
	}
	cfg := &Config{Property: chk.ID, Tier: "quick", Seed: 1, NShards: 1, MaxCases: 200, MaxSeconds: 30, Mode: "run"}
	if s := os.Getenv("VERIF_CFG"); s != "" {
		if err := json.Unmarshal([]byte(s), cfg); err != nil {
			t.Fatalf("bad VERIF_CFG: %v", err)
		}
	} else if s := os.Getenv("VERIF_REPLAY"); s != "" {
		cfg.Mode, cfg.TapeFile = "replay", s
	}
	if cfg.Property != chk.ID {
		t.Skip("other property")
	}
	if cfg.Scratch == "" {
		base := "/dev/shm"
		if _, err := os.Stat(base); err != nil {
			base = os.TempDir()
		}
		d, err := os.MkdirTemp(base, "verif-"+chk.ID+"-")
		if err != nil {
			t.Fatal(err)
		}
		cfg.Scratch = d
		defer os.RemoveAll(d)
	}
	res := &ShardResult{Property: chk.ID, Shard: cfg.Shard, Faults: map[string]int64{}, Probes: map[string]int64{}, Classes: map[string]int64{}, Outcomes: map[string]int64{}, ViolCount: map[string]int64{}}
	start := time.Now()
	switch cfg.Mode {
	case "run":
		runShard(t, chk, cfg, res, start)
	case "hashes":
		// determinism self-test: one line per case with everything that must be identical across runs
		var lines []string
		for i := 0; i < cfg.MaxCases; i++ {
			cs := CaseSeed(cfg.Seed, cfg.Shard, cfg.FirstCase+i)
			tape := simrt.NewTape(cs)
			c := runCase(t, chk, tape, cs, cfg, res, false)
			v := ""
			if c.viol != nil {
				v = c.viol.FP()
			}
			h := fnv.New64a()
			fmt.Fprintf(h, "%v", tape.Rec)
			lines = append(lines, fmt.Sprintf("%d tape=%x/%d hashes=%x steps=%d outcome=%s viol=%s sub=%d", cs, h.Sum64(), len(tape.Rec), c.hashes, c.steps, c.outcome, v, c.subEvals))
			res.Cases++
		}
		res.Errors = nil
		res.HashLines = lines
	case "replay":
		rp := loadReplay(t, cfg.TapeFile)
		tape := simrt.ReplayTape(rp.Tape)
		if len(rp.Labels) > 0 {
			tape.Expect, tape.ExpectComplete = rp.Labels, rp.LabelsVersion >= 2
		}
		c := runCase(t, chk, tape, rp.CaseSeed, cfg, res, true)
		if c.harnessErr != "" {
			res.Errors = append(res.Errors, c.harnessErr)
		}
		res.Cases = 1
		if c.viol != nil {
			res.ReplayResult = c.viol
			fmt.Printf("REPLAY-RESULT kind=%s site=%s detail=%s\n", c.viol.Kind, c.viol.Site, c.viol.Detail)
			for _, n := range c.notes {
				fmt.Println("  note:", n)
			}
		} else {
			fmt.Printf("REPLAY-RESULT none (outcome=%s)\n", c.outcome)
		}
	case "minimize":
		rp := loadReplay(t, cfg.TapeFile)
		m, execs := minimise(t, chk, cfg, res, rp)
		res.Minimised = m
		res.MinExecs = execs
	}
	res.WallS = time.Since(start).Seconds()
	if cfg.Out != "" {
		j, _ := json.Marshal(res)
		if err := os.WriteFile(cfg.Out, j, 0644); err != nil {
			t.Fatal(err)
		}
	} else if cfg.Mode == "run" {
		t.Logf("cases=%d steps=%d preempt=%d faults=%v outcomes=%v distinct=%d wall=%.1fs", res.Cases, res.Steps, res.Preemptions, res.Faults, res.Outcomes, len(res.Identities), res.WallS)
		for _, e := range res.Errors {
			t.Errorf("harness error: %s", e)
		}
		keys := make([]string, 0, len(res.ViolCount))
		for k := range res.ViolCount {
			keys = append(keys, k)
		}
		sort.Strings(keys)
		for _, k := range keys {
			t.Logf("violation %s x%d", k, res.ViolCount[k])
		}
		for _, v := range res.Violations {
			t.Logf("VIOLATION %s %s: %s (case seed %d, tape len %d)", v.Kind, v.Site, v.Detail, v.CaseSeed, len(v.Tape))
		}
		if len(res.Violations) > 0 && os.Getenv("VERIF_ALLOW_VIOL") == "" {
			t.Fail()
		}
	}
}

// resourcePressure reports whether this worker process should be replaced by a fresh one.
func resourcePressure() bool {
	if runtime.NumGoroutine() > 30000 {
		return true
	}
	ents, err := os.ReadDir("/proc/self/fd")
	return err == nil && len(ents) > 3000
}

func runShard(t *testing.T, chk *Check, cfg *Config, res *ShardResult, start time.Time) {
	idset := map[uint64]struct{}{}
	for i := 0; i < cfg.MaxCases; i++ {
		if cfg.MaxSeconds > 0 && time.Since(start).Seconds() > cfg.MaxSeconds {
			break
		}
		// tasks frozen by a simulated process death keep their descriptors and stacks for the life of this process
		if i > 0 && resourcePressure() {
			res.Recycle = true
			res.Probes["worker-recycled (descriptors/goroutines of frozen tasks)"]++
			break
		}
		cs := CaseSeed(cfg.Seed, cfg.Shard, cfg.FirstCase+i)
		tape := simrt.NewTape(cs)
		c := runCase(t, chk, tape, cs, cfg, res, false)
		res.Cases++
		res.SubEvals += c.subEvals
		res.Steps += int64(c.steps)
		res.Preemptions += int64(c.preempt)
		res.SimNanos += c.simNanos
		for k, v := range c.faults {
			res.Faults[k] += v
		}
		for k, v := range c.probes {
			res.Probes[k] += v
		}
		if c.class != "" {
			res.Classes[c.class]++
		}
		oc := c.outcome
		if c.viol != nil {
			oc = "violation:" + c.viol.Kind
		}
		if oc != "" {
			res.Outcomes[oc]++
		}
		if c.harnessErr != "" {
			if len(res.Errors) < 5 {
				res.Errors = append(res.Errors, fmt.Sprintf("case seed %d: %s", cs, c.harnessErr))
			}
			continue
		}
		if c.nontriv {
			if len(idset) < identCap {
				idset[c.identity()] = struct{}{}
			} else {
				res.IdentCapped = true
			}
		}
		if len(res.Samples) < 3 || (c.viol != nil && len(res.Samples) < 5) {
			n := len(tape.Rec)
			if n > 48 {
				n = 48
			}
			res.Samples = append(res.Samples, Sample{CaseSeed: cs, Class: c.class, Notes: c.notes, Tape: append([]int(nil), tape.Rec[:n]...), TapeLen: len(tape.Rec), Steps: c.steps, Outcome: oc})
		}
		if c.viol != nil {
			fp := c.viol.FP()
			res.ViolCount[fp]++
			if res.ViolCount[fp] == 1 {
				res.Violations = append(res.Violations, Replay{Property: chk.ID, Tier: cfg.Tier, CaseSeed: cs, Kind: c.viol.Kind, Site: c.viol.Site, Detail: c.viol.Detail, Tape: append([]int(nil), tape.Rec...), Notes: c.notes})
			}
		}
	}
	for id := range idset {
		res.Identities = append(res.Identities, id)
	}
	sort.Slice(res.Identities, func(i, j int) bool { return res.Identities[i] < res.Identities[j] })
}

func loadReplay(t *testing.T, path string) *Replay {
	b, err := os.ReadFile(path)
	if err != nil {
		t.Fatal(err)
	}
	var rp Replay
	if err := json.Unmarshal(b, &rp); err != nil {
		t.Fatal(err)
	}
	return &rp
}

// minimise shrinks the tape while the same fingerprint reproduces.
func minimise(t *testing.T, chk *Check, cfg *Config, res *ShardResult, rp *Replay) (*Replay, int) {
	want := rp.Kind + "|" + rp.Site
	execs := 0
	deadline := time.Now().Add(60 * time.Second)
	var lastViol *Violation
	var lastNotes []string
	var lastLabels []string
	var lastTrace []string
	try := func(tape []int) bool {
		if execs >= 400 || time.Now().After(deadline) {
			return false
		}
		execs++
		tp := simrt.ReplayTape(tape)
		tp.KeepLabels = true
		c := runCase(t, chk, tp, rp.CaseSeed, cfg, res, true)
		if c.viol != nil && c.viol.FP() == want {
			lastViol, lastNotes, lastLabels, lastTrace = c.viol, c.notes, tp.Labels, c.trace
			return true
		}
		return false
	}
	cur := append([]int(nil), rp.Tape...)
	if !try(cur) {
		return nil, execs
	}
	// 1. shortest failing prefix (binary search; exhausted tape yields zeros)
	lo, hi := 0, len(cur)
	for lo < hi {
		mid := (lo + hi) / 2
		if try(cur[:mid]) {
			hi = mid
		} else {
			lo = mid + 1
		}
	}
	if hi < len(cur) && try(cur[:hi]) {
		cur = cur[:hi]
	}
	// 2. block deletion
	for bs := len(cur) / 2; bs >= 1; bs /= 2 {
		for i := 0; i+bs <= len(cur); {
			cand := append(append([]int(nil), cur[:i]...), cur[i+bs:]...)
			if try(cand) {
				cur = cand
			} else {
				i += bs
			}
		}
	}
	// 3. zero / halve values
	for i := range cur {
		if cur[i] == 0 {
			continue
		}
		old := cur[i]
		cur[i] = 0
		if try(cur) {
			continue
		}
		cur[i] = old / 2
		if cur[i] == old || !try(cur) {
			cur[i] = old
		}
	}
	// final run to collect labels for the minimised tape
	if !try(cur) {
		// budget exhausted in between: re-run without budget
		execs = 0
		deadline = time.Now().Add(30 * time.Second)
		if !try(cur) {
			return nil, execs
		}
	}
	out := &Replay{Property: rp.Property, Tier: rp.Tier, CaseSeed: rp.CaseSeed, Kind: lastViol.Kind, Site: lastViol.Site, Detail: lastViol.Detail,
		Tape: cur, Labels: lastLabels, Notes: lastNotes, Trace: lastTrace, Minimised: true, OrigLen: len(rp.Tape), LabelsVersion: 2}
	if len(out.Labels) > len(cur) {
		out.Labels = out.Labels[:len(cur)]
	}
	return out, execs
}

func stackInto(buf []byte) int {
	return runtimeStack(buf)
}

var _ = filepath.Join
