package fw

import "runtime"

func runtimeStack(buf []byte) int { return runtime.Stack(buf, false) }
