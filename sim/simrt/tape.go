package simrt

import (
	"math/rand/v2"
)

// Tape is the single source of every choice in one execution. In generation
// mode values come from a PCG stream; in replay mode from a recorded list
// (0 when exhausted, value mod n when out of range).
type Tape struct {
	rng    *rand.Rand
	Rec    []int
	Labels []string
	play   []int
	replay bool
	pos    int
	// KeepLabels records a label per draw (used for replay files only).
	KeepLabels bool
	// Expect holds the labels a replay file recorded with its tape. A draw made through DrawOptional whose label is
	// not the one recorded at this position was added to the check after the file was written: it takes its default
	// and consumes nothing, so older replay files keep driving the case they were recorded for.
	Expect []string
	// ExpectComplete: the recorded run knew optional draws, so one beyond the end of Expect drew a zero like any other
	ExpectComplete bool
}

func NewTape(seed uint64) *Tape {
	return &Tape{rng: rand.New(rand.NewPCG(seed, 0x9e3779b97f4a7c15))}
}

func ReplayTape(vals []int) *Tape {
	return &Tape{play: vals, replay: true}
}

func (t *Tape) Draw(n int, label string) int {
	if n <= 1 {
		return 0
	}
	var v int
	if t.replay {
		if t.pos < len(t.play) {
			v = t.play[t.pos] % n
			if v < 0 {
				v = 0
			}
		}
		t.pos++
	} else {
		v = t.rng.IntN(n)
	}
	t.Rec = append(t.Rec, v)
	if t.KeepLabels {
		t.Labels = append(t.Labels, label)
	}
	return v
}

// DrawOptional is Draw for a choice that was added to a generator later (see Expect).
func (t *Tape) DrawOptional(n int, label string, deflt int) int {
	if t.replay && t.Expect != nil {
		if t.pos >= len(t.Expect) {
			if !t.ExpectComplete {
				return deflt
			}
		} else if t.Expect[t.pos] != label {
			return deflt
		}
	}
	return t.Draw(n, label)
}

// Len is the number of draws made so far.
func (t *Tape) Len() int { return len(t.Rec) }
