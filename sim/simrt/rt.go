// Package simrt is the seeded scheduler that runs on top of a synctest
// bubble. Exactly one task of the system under test is released at a time;
// every decision is drawn from the tape.
package simrt

import (
	"bytes"
	"fmt"
	"hash/fnv"
	"runtime"
	"sort"
	"strconv"
	"strings"
	"sync"
	"testing/synctest"
	"time"
)

// Drawer is the single source of choices.
type Drawer interface {
	Draw(n int, label string) int
}

type task struct {
	id    string
	wake  chan struct{}
	label string
	ok    func() bool
	nkids int
	prio  int
	seen  int // ordinal of first appearance
}

// PanicInfo is a panic captured in a task of the system under test.
type PanicInfo struct {
	Task  string
	Value string
	Site  string // top-most frame inside package desync
	Stack string
}

// Policy kinds.
const (
	PolUniform = iota
	PolPCT
	PolStall
	PolSticky
	NumPolicies
)

type RT struct {
	mu       sync.Mutex
	tasks    map[uint64]*task
	parked   map[string]*task
	pending  map[uint64]string
	nextTok  uint64
	notify   chan struct{}
	live     int
	hlive    int // live harness tasks (started with Go)
	hstarted bool
	Leaked   int // SUT tasks still alive when all harness tasks had finished
	D        Drawer

	Steps       int
	MaxSteps    int
	ioSinceStep int
	Preemptions int
	hash        uint64
	Panics      []PanicInfo
	Adhoc       int
	Foreign     int // hook calls from goroutines not started under this runtime (ignored)
	aborted     bool
	AbortReason string
	Hang        bool
	HangTasks   []string
	SimTime     time.Duration

	// step hooks: run by the scheduler (no task running) when Steps == k
	stepHooks map[int][]func()
	// IOHook is called in task context at every R6 point with its ordinal.
	IOHook  func(label string, ordinal int)
	IOCount int
	IOLog   []string
	LogIO   bool
	// YieldIO makes every R6 point a scheduling point too.
	YieldIO bool

	policy    int
	nseen     int
	last      *task
	pctChange map[int]bool
	pctLow    int
	victim    int
	stallLeft int
	// Trace keeps the last decisions for violation reports.
	Trace     []string
	KeepTrace bool
	// SiteHits counts how often each instrumented site (scheduling or I/O label) was reached.
	SiteHits map[string]int
}

var epoch uint64

func New(d Drawer) *RT {
	epoch++
	return &RT{nextTok: epoch << 32, tasks: map[uint64]*task{}, parked: map[string]*task{}, pending: map[uint64]string{},
		notify: make(chan struct{}, 1), D: d, SiteHits: map[string]int{}, MaxSteps: 200000, stepHooks: map[int][]func(){}, policy: -1}
}

func goid() uint64 {
	var buf [64]byte
	n := runtime.Stack(buf[:], false)
	b := buf[:n]
	b = b[len("goroutine "):]
	i := bytes.IndexByte(b, ' ')
	v, _ := strconv.ParseUint(string(b[:i]), 10, 64)
	return v
}

// cur returns the task of the calling goroutine, or nil for a goroutine that
// was not started under this runtime (a left-over of an earlier case, or a
// goroutine created by a dependency). Such goroutines are never parked: they
// could not be woken from inside the bubble.
func (r *RT) cur() *task {
	g := goid()
	r.mu.Lock()
	defer r.mu.Unlock()
	t := r.tasks[g]
	if t == nil {
		r.Foreign++
	}
	return t
}

func (r *RT) poke() {
	select {
	case r.notify <- struct{}{}:
	default:
	}
}

func (r *RT) park(t *task, label string, ok func() bool) {
	if t == nil {
		return
	}
	r.mu.Lock()
	r.SiteHits[label]++
	if r.aborted {
		r.mu.Unlock()
		<-t.wake // never released: the run is over
		return
	}
	t.label, t.ok = label, ok
	r.parked[t.id] = t
	r.mu.Unlock()
	r.poke()
	<-t.wake
}

// Yield is a scheduling point.
func (r *RT) Yield(label string) { r.park(r.cur(), label, nil) }

// YieldUntil is a scheduling point that is only enabled while ok() holds. ok
// is evaluated by the scheduler while no task runs.
func (r *RT) YieldUntil(label string, ok func() bool) { r.park(r.cur(), label, ok) }

// Sleep advances fake time for the calling task and then parks it.
func (r *RT) Sleep(d time.Duration, label string) {
	time.Sleep(d)
	r.Yield(label)
}

func (r *RT) IO(label string) {
	if r.cur() == nil {
		return
	}
	r.mu.Lock()
	r.IOCount++
	r.SiteHits["io:"+label]++
	// a task that keeps passing file-system points without ever reaching a scheduling point is spinning (the points
	// themselves only yield when YieldIO is set): end the run as a livelock instead of looping until the worker's
	// watchdog fires
	r.ioSinceStep++
	if r.ioSinceStep > 1000000 && !r.aborted {
		r.mu.Unlock()
		r.Freeze("spin")
		return
	}
	n := r.IOCount
	if r.LogIO {
		r.IOLog = append(r.IOLog, label)
	}
	h := r.IOHook
	y := r.YieldIO
	r.mu.Unlock()
	if h != nil {
		h(label, n)
	}
	if y {
		r.Yield("io:" + label)
	}
}

// Freeze aborts the run from inside a task (process death at this point): the
// calling task never runs again and no other task is released any more.
func (r *RT) Freeze(reason string) {
	t := r.cur()
	if t == nil {
		return
	}
	r.mu.Lock()
	r.aborted = true
	r.AbortReason = reason
	r.mu.Unlock()
	r.poke()
	<-t.wake
}

func (r *RT) PreSpawn() uint64 {
	t := r.cur()
	if t == nil {
		return 0
	}
	r.mu.Lock()
	defer r.mu.Unlock()
	t.nkids++
	r.nextTok++
	r.pending[r.nextTok] = fmt.Sprintf("%s.%d", t.id, t.nkids)
	r.live++
	return r.nextTok
}

func (r *RT) GoStart(tok uint64) {
	g := goid()
	r.mu.Lock()
	id, ok := r.pending[tok]
	if !ok { // token of another runtime: a left-over goroutine of an earlier case
		r.Foreign++
		r.mu.Unlock()
		return
	}
	delete(r.pending, tok)
	t := &task{id: id, wake: make(chan struct{})}
	r.tasks[g] = t
	r.mu.Unlock()
	r.park(t, "start", nil)
}

func desyncSite(stack string) string {
	// first frame after the panic line that is inside package desync and not a verif hook
	lines := strings.Split(stack, "\n")
	seenPanic := false
	for _, l := range lines {
		if strings.HasPrefix(l, "panic(") {
			seenPanic = true
			continue
		}
		if !seenPanic {
			continue
		}
		if strings.HasPrefix(l, "github.com/folbricht/desync.") {
			f := strings.TrimPrefix(l, "github.com/folbricht/desync.")
			if i := strings.LastIndex(f, "("); i > 0 {
				f = f[:i]
			}
			if strings.Contains(f, "verif") {
				continue
			}
			// strip closure suffixes .func1.2
			for {
				i := strings.LastIndex(f, ".")
				if i < 0 {
					break
				}
				tail := f[i+1:]
				if strings.HasPrefix(tail, "func") || (len(tail) > 0 && tail[0] >= '0' && tail[0] <= '9') {
					f = f[:i]
					continue
				}
				break
			}
			return f
		}
	}
	return "unknown"
}

func (r *RT) GoEnd(rec any, stack []byte) {
	g := goid()
	r.mu.Lock()
	t := r.tasks[g]
	if t == nil {
		// not one of ours (see cur): do not touch the scheduler
		r.Foreign++
		r.mu.Unlock()
		if rec != nil {
			panic(rec)
		}
		return
	}
	delete(r.tasks, g)
	r.live--
	if rec != nil {
		id := "?"
		if t != nil {
			id = t.id
		}
		r.Panics = append(r.Panics, PanicInfo{Task: id, Value: fmt.Sprint(rec), Site: desyncSite(string(stack)), Stack: string(stack)})
		r.aborted = true
		r.AbortReason = "panic"
	}
	r.mu.Unlock()
	r.poke()
}

func (r *RT) SelectOrder(label string, n int) []int {
	o := make([]int, n)
	for i := range o {
		o[i] = i
	}
	for i := n - 1; i > 0; i-- {
		j := r.D.Draw(i+1, "sel")
		o[i], o[j] = o[j], o[i]
	}
	return o
}

// Go starts a harness task. May be called before Run and from tasks.
func (r *RT) Go(name string, f func()) {
	r.mu.Lock()
	r.nextTok++
	tok := r.nextTok
	r.pending[tok] = name
	r.live++
	r.hlive++
	r.hstarted = true
	r.mu.Unlock()
	go func() {
		r.GoStart(tok)
		defer func() {
			r.mu.Lock()
			r.hlive--
			r.mu.Unlock()
			rec := recover()
			var st []byte
			if rec != nil {
				buf := make([]byte, 16384)
				st = buf[:runtime.Stack(buf, false)]
			}
			r.GoEnd(rec, st)
		}()
		f()
	}()
}

// AtStep registers f to run (in scheduler context, no task running) right
// before scheduling decision number k.
func (r *RT) AtStep(k int, f func()) { r.stepHooks[k] = append(r.stepHooks[k], f) }

// Abort ends the run; parked tasks are never released.
func (r *RT) Abort(reason string) {
	r.mu.Lock()
	r.aborted = true
	r.AbortReason = reason
	r.mu.Unlock()
	r.poke()
}

func (r *RT) Aborted() bool {
	r.mu.Lock()
	defer r.mu.Unlock()
	return r.aborted
}

func (r *RT) initPolicy() {
	r.policy = r.D.Draw(NumPolicies, "policy")
	switch r.policy {
	case PolPCT:
		r.pctChange = map[int]bool{}
		d := r.D.Draw(4, "pct.d")
		for i := 0; i < d; i++ {
			r.pctChange[r.D.Draw(300, "pct.at")] = true
		}
	case PolStall:
		r.victim = r.D.Draw(10, "stall.victim")
		r.stallLeft = 1 + r.D.Draw(400, "stall.len")
	}
}

func (r *RT) pick(en []*task) *task {
	switch r.policy {
	case PolPCT:
		best := en[0]
		for _, t := range en[1:] {
			if t.prio > best.prio {
				best = t
			}
		}
		if r.pctChange[r.Steps] {
			r.pctLow--
			best.prio = r.pctLow
		}
		return best
	case PolStall:
		if r.stallLeft > 0 {
			var rest []*task
			for _, t := range en {
				if t.seen != r.victim {
					rest = append(rest, t)
				}
			}
			if len(rest) > 0 && len(rest) < len(en) {
				r.stallLeft--
				en = rest
			}
		}
		return en[r.D.Draw(len(en), "sched")]
	case PolSticky:
		if r.last != nil {
			for _, t := range en {
				if t == r.last {
					if r.D.Draw(8, "sticky") != 0 {
						return t
					}
					break
				}
			}
		}
		return en[r.D.Draw(len(en), "sched")]
	}
	return en[r.D.Draw(len(en), "sched")]
}

// Run is the scheduler loop; call it from the bubble's root goroutine after
// starting the initial tasks with Go. It returns when all tasks have
// finished, or the run was aborted, hung, or exceeded its step budget.
func (r *RT) Run() {
	start := time.Now()
	defer func() { r.SimTime = time.Since(start) }()
	if r.policy < 0 {
		r.initPolicy()
	}
	for {
		synctest.Wait()
		r.mu.Lock()
		if r.aborted {
			r.mu.Unlock()
			return
		}
		if r.hstarted && r.hlive == 0 {
			// every harness task has returned: whatever is left of the system
			// under test is a leaked goroutine, not part of the operation
			r.Leaked = r.live
			r.mu.Unlock()
			return
		}
		var en []*task
		for _, t := range r.parked {
			if t.ok == nil || t.ok() {
				en = append(en, t)
			}
		}
		if len(en) == 0 {
			live := r.live
			r.mu.Unlock()
			if live == 0 {
				return
			}
			// nothing runnable: block durably so fake time can advance; if
			// nothing happens for a simulated day the system is hung.
			tm := time.NewTimer(24 * time.Hour)
			select {
			case <-r.notify:
				tm.Stop()
			case <-tm.C:
				r.mu.Lock()
				r.Hang = true
				r.aborted = true
				r.AbortReason = "hang"
				for _, t := range r.parked {
					r.HangTasks = append(r.HangTasks, t.id+"@"+t.label)
				}
				sort.Strings(r.HangTasks)
				r.mu.Unlock()
				return
			}
			continue
		}
		sort.Slice(en, func(i, j int) bool { return en[i].id < en[j].id })
		for _, t := range en {
			if t.seen == 0 {
				r.nseen++
				t.seen = r.nseen
				if r.policy == PolPCT {
					t.prio = 1 + r.D.Draw(1000, "pct.prio")
				}
			}
		}
		r.mu.Unlock()
		if hs := r.stepHooks[r.Steps]; hs != nil {
			delete(r.stepHooks, r.Steps)
			for _, h := range hs {
				h()
			}
			// hooks may have changed enabling conditions: recompute
			r.Steps++
			continue
		}
		t := r.pick(en)
		if r.last != nil && r.last != t {
			for _, e := range en {
				if e == r.last {
					r.Preemptions++
					break
				}
			}
		}
		r.last = t
		r.mu.Lock()
		delete(r.parked, t.id)
		r.mu.Unlock()
		r.Steps++
		r.mu.Lock()
		r.ioSinceStep = 0
		r.mu.Unlock()
		h := fnv.New64a()
		fmt.Fprintf(h, "%d|%s|%s", r.hash, t.id, t.label)
		r.hash = h.Sum64()
		if r.KeepTrace {
			r.Trace = append(r.Trace, t.id+"@"+t.label)
		}
		if r.Steps > r.MaxSteps {
			r.mu.Lock()
			r.aborted = true
			r.AbortReason = "step-budget"
			r.mu.Unlock()
			return
		}
		t.wake <- struct{}{}
	}
}

func (r *RT) Hash() uint64 { return r.hash }

// TaskID returns the deterministic id of the calling task.
func (r *RT) TaskID() string {
	if t := r.cur(); t != nil {
		return t.id
	}
	return "foreign"
}
