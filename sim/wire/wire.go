// Package wire holds the types exchanged between the driver and the worker
// processes (no dependency on the instrumented desync package).
package wire

import "os"

// Violation is what a check reports for one case. (Kind, Site) is the
// fingerprint used for minimisation, replay and known findings.
type Violation struct {
	Kind   string `json:"kind"`
	Site   string `json:"site"`
	Detail string `json:"detail"`
}

// Config is passed by the driver in VERIF_CFG.
type Config struct {
	Property   string  `json:"property"`
	Tier       string  `json:"tier"`
	Seed       uint64  `json:"seed"`
	Shard      int     `json:"shard"`
	NShards    int     `json:"nshards"`
	MaxCases   int     `json:"max_cases"`
	MaxSeconds float64 `json:"max_seconds"`
	Mode       string  `json:"mode"` // run | replay | minimize
	TapeFile   string  `json:"tape_file"`
	Out        string  `json:"out"`
	Scratch    string  `json:"scratch"`
	FirstCase  int     `json:"first_case"`
}

// Replay is the replay file format.
type Replay struct {
	Property  string   `json:"property"`
	Tier      string   `json:"tier"`
	CaseSeed  uint64   `json:"case_seed"`
	Kind      string   `json:"kind"`
	Site      string   `json:"site"`
	Detail    string   `json:"detail"`
	Tape      []int    `json:"tape"`
	Labels    []string `json:"labels,omitempty"`
	Notes     []string `json:"notes,omitempty"`
	Trace     []string `json:"trace,omitempty"`
	Minimised bool     `json:"minimised"`
	OrigLen   int      `json:"orig_tape_len,omitempty"`
	// LabelsVersion 2: Labels has one entry per tape value and the recorded run drew zeros beyond the end of the
	// tape, optional draws included (files written before generators knew optional draws have no version)
	LabelsVersion int `json:"labels_version,omitempty"`
}
type Sample struct {
	CaseSeed uint64   `json:"case_seed"`
	Class    string   `json:"class"`
	Notes    []string `json:"notes"`
	Tape     []int    `json:"tape_prefix"`
	TapeLen  int      `json:"tape_len"`
	Steps    int      `json:"sched_steps"`
	Outcome  string   `json:"outcome"`
}

// ShardResult is what one worker process reports.
type ShardResult struct {
	Property    string           `json:"property"`
	Shard       int              `json:"shard"`
	Cases       int              `json:"cases"`
	SubEvals    int64            `json:"sub_evaluations"`
	Steps       int64            `json:"sched_steps"`
	Preemptions int64            `json:"preemptions"`
	SimNanos    int64            `json:"sim_nanos"`
	WallS       float64          `json:"wall_s"`
	Faults      map[string]int64 `json:"faults"`
	Probes      map[string]int64 `json:"probes"`
	Classes     map[string]int64 `json:"classes"`
	Outcomes    map[string]int64 `json:"outcomes"`
	Identities  []uint64         `json:"identities"`
	IdentCapped bool             `json:"identities_capped"`
	Samples     []Sample         `json:"samples"`
	Violations  []Replay         `json:"violations"`
	ViolCount   map[string]int64 `json:"violation_counts"`
	Adhoc       int              `json:"adhoc_tasks"`
	Errors      []string         `json:"errors"`
	Exhaustive  bool             `json:"exhaustive"`
	// Recycle: the worker stopped before its last case because descriptors or goroutines left behind by simulated
	// process deaths piled up in it; the driver continues the job in a fresh process from case FirstCase+Cases
	Recycle      bool       `json:"recycle"`
	ReplayResult *Violation `json:"replay_result,omitempty"`
	Minimised    *Replay    `json:"minimised,omitempty"`
	MinExecs     int        `json:"min_execs,omitempty"`
	HashLines    []string   `json:"hash_lines,omitempty"`
}

func (v *Violation) FP() string { return v.Kind + "|" + v.Site }

// ScratchBase picks the scratch root.
func ScratchBase() string {
	if st, err := os.Stat("/dev/shm"); err == nil && st.IsDir() {
		return "/dev/shm"
	}
	return os.TempDir()
}
