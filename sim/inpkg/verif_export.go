//go:build verif

// Accessors the verification harness needs for unexported state; overlaid
// into package desync at build time, never committed to the repository.
package desync

import (
	"context"
	"net/http"
	"syscall"

	"github.com/hanwen/go-fuse/v2/fs"
	"github.com/hanwen/go-fuse/v2/fuse"
)

// VerifSetHTTPTransport replaces the transport of a RemoteHTTPBase's client.
func VerifSetHTTPTransport(b *RemoteHTTPBase, rt http.RoundTripper) { b.client.Transport = rt }

// VerifIndexNode drives the FUSE node of an index mount without a kernel.
type VerifIndexNode struct{ n *indexFile }

func VerifNewIndexNode(idx Index, s Store) *VerifIndexNode {
	return &VerifIndexNode{n: &indexFile{idx: idx, store: s}}
}

func (v *VerifIndexNode) Open() (fs.FileHandle, syscall.Errno) {
	h, _, e := v.n.Open(context.Background(), 0)
	return h, e
}

func (v *VerifIndexNode) Size() uint64 {
	var out fuse.AttrOut
	v.n.Getattr(context.Background(), nil, &out)
	return out.Size
}

func verifReadResult(r fuse.ReadResult, e syscall.Errno, n int) ([]byte, syscall.Errno) {
	if e != 0 || r == nil {
		return nil, e
	}
	b, st := r.Bytes(make([]byte, n))
	if st != fuse.OK {
		return nil, syscall.EIO
	}
	return append([]byte(nil), b...), 0
}

func (v *VerifIndexNode) Read(h fs.FileHandle, size int, off int64) ([]byte, syscall.Errno) {
	dest := make([]byte, size)
	r, e := v.n.Read(context.Background(), h, dest, off)
	return verifReadResult(r, e, size)
}

// VerifSparseNode drives the FUSE node of a sparse mount without a kernel.
type VerifSparseNode struct{ n *sparseIndexFile }

func VerifNewSparseNode(sf *SparseFile) *VerifSparseNode {
	return &VerifSparseNode{n: &sparseIndexFile{sf: sf, size: sf.Length()}}
}

func (v *VerifSparseNode) Open() (fs.FileHandle, syscall.Errno) {
	h, _, e := v.n.Open(context.Background(), 0)
	return h, e
}

func (v *VerifSparseNode) Read(h fs.FileHandle, size int, off int64) ([]byte, syscall.Errno) {
	dest := make([]byte, size)
	r, e := v.n.Read(context.Background(), h, dest, off)
	return verifReadResult(r, e, size)
}

// VerifFailoverActive reports the index of the active member of a failover group.
func VerifFailoverActive(g *FailoverGroup) int {
	return g.active
}
