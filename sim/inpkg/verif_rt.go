//go:build verif

// This file is overlaid into package desync by the verification harness
// (never committed to the repository). With no runtime installed every hook
// is a no-op and the sync replacements behave like the real primitives.
package desync

import (
	"fmt"
	"os"
	"runtime/debug"
	"sync"
	"sync/atomic"
)

// VerifRuntime is installed by the simulation harness.
type VerifRuntime interface {
	Yield(label string)
	YieldUntil(label string, ok func() bool)
	PreSpawn() uint64
	GoStart(tok uint64)
	GoEnd(recovered any, stack []byte)
	SelectOrder(label string, n int) []int
	IO(label string)
}

var verifRT VerifRuntime

// VerifInstall installs (or with nil removes) the simulation runtime.
func VerifInstall(rt VerifRuntime) {
	verifRT = rt
	atomic.AddUint64(&verifEpoch, 1)
}

// verifEpoch changes with every installed (or removed) runtime: state that must not leak from one simulated run into
// the next (free lists) is dropped when it does.
var verifEpoch uint64

// verifCloneRangeHook, when set, replaces the FICLONERANGE ioctl.
var verifCloneRangeHook func(dst, src *os.File, srcOffset, srcLength, dstOffset uint64) error

// VerifSetCloneRangeHook installs an emulation of FICLONERANGE.
func VerifSetCloneRangeHook(h func(dst, src *os.File, srcOffset, srcLength, dstOffset uint64) error) {
	verifCloneRangeHook = h
}

func verifYield(label string) {
	if rt := verifRT; rt != nil {
		rt.Yield(label)
	}
}
func verifIO(label string) {
	if rt := verifRT; rt != nil {
		rt.IO(label)
	}
}
func verifPreSpawn() uint64 {
	if rt := verifRT; rt != nil {
		return rt.PreSpawn()
	}
	return 0
}
func verifGoStart(tok uint64) {
	// tok == 0: the parent was not running under the simulator
	if rt := verifRT; rt != nil && tok != 0 {
		rt.GoStart(tok)
	}
}

// verifPanicHook, when set, receives a panic of a goroutine started by this package outside any simulated runtime
// (checks that call into the package directly). Without it such a panic takes the whole process down, as it would in
// production - and with it the worker and every other case it was going to run.
var (
	verifPanicMu   sync.Mutex
	verifPanicHook func(r any, stack []byte)
)

// VerifSetPanicHook installs (or, with nil, removes) the hook.
func VerifSetPanicHook(h func(r any, stack []byte)) {
	verifPanicMu.Lock()
	verifPanicHook = h
	verifPanicMu.Unlock()
}

func verifGoEnd(r any) bool {
	if rt := verifRT; rt != nil {
		var st []byte
		if r != nil {
			st = debug.Stack()
		}
		rt.GoEnd(r, st)
		return false
	}
	if r != nil {
		verifPanicMu.Lock()
		h := verifPanicHook
		verifPanicMu.Unlock()
		if h == nil {
			panic(r)
		}
		h(r, debug.Stack())
		return true
	}
	return false
}
func verifWrapErrFunc(f func() error) func() error {
	tok := verifPreSpawn()
	return func() (err error) {
		verifGoStart(tok)
		defer func() {
			if r := recover(); r != nil {
				if verifGoEnd(r) {
					err = fmt.Errorf("panic in worker goroutine: %v", r)
				}
				return
			}
			verifGoEnd(nil)
		}()
		return f()
	}
}
func verifSelectOrder(label string, n int) []int {
	if rt := verifRT; rt != nil {
		return rt.SelectOrder(label, n)
	}
	o := make([]int, n)
	for i := range o {
		o[i] = i
	}
	return o
}

type verifMutex struct {
	real   sync.Mutex
	locked bool
}

func (m *verifMutex) Lock() {
	rt := verifRT
	if rt == nil {
		m.real.Lock()
		return
	}
	rt.YieldUntil("mutex.Lock", func() bool { return !m.locked })
	m.locked = true
}
func (m *verifMutex) TryLock() bool {
	rt := verifRT
	if rt == nil {
		return m.real.TryLock()
	}
	rt.Yield("mutex.TryLock")
	if m.locked {
		return false
	}
	m.locked = true
	return true
}
func (m *verifMutex) Unlock() {
	if verifRT == nil {
		m.real.Unlock()
		return
	}
	if !m.locked {
		panic("sync: unlock of unlocked mutex")
	}
	m.locked = false
}

type verifRWMutex struct {
	real     sync.RWMutex
	writer   bool
	readers  int
	wwaiting int
}

func (m *verifRWMutex) Lock() {
	rt := verifRT
	if rt == nil {
		m.real.Lock()
		return
	}
	m.wwaiting++
	rt.YieldUntil("rwmutex.Lock", func() bool { return !m.writer && m.readers == 0 })
	m.wwaiting--
	m.writer = true
}
func (m *verifRWMutex) TryLock() bool {
	rt := verifRT
	if rt == nil {
		return m.real.TryLock()
	}
	rt.Yield("rwmutex.TryLock")
	if m.writer || m.readers > 0 {
		return false
	}
	m.writer = true
	return true
}
func (m *verifRWMutex) TryRLock() bool {
	rt := verifRT
	if rt == nil {
		return m.real.TryRLock()
	}
	rt.Yield("rwmutex.TryRLock")
	if m.writer || m.wwaiting > 0 {
		return false
	}
	m.readers++
	return true
}
func (m *verifRWMutex) RLocker() sync.Locker { return (*verifRLocker)(m) }

type verifRLocker verifRWMutex

func (r *verifRLocker) Lock()   { (*verifRWMutex)(r).RLock() }
func (r *verifRLocker) Unlock() { (*verifRWMutex)(r).RUnlock() }

func (m *verifRWMutex) Unlock() {
	if verifRT == nil {
		m.real.Unlock()
		return
	}
	if !m.writer {
		panic("sync: Unlock of unlocked RWMutex")
	}
	m.writer = false
}
func (m *verifRWMutex) RLock() {
	rt := verifRT
	if rt == nil {
		m.real.RLock()
		return
	}
	rt.YieldUntil("rwmutex.RLock", func() bool { return !m.writer && m.wwaiting == 0 })
	m.readers++
}
func (m *verifRWMutex) RUnlock() {
	if verifRT == nil {
		m.real.RUnlock()
		return
	}
	if m.readers <= 0 {
		panic("sync: RUnlock of unlocked RWMutex")
	}
	m.readers--
}

type verifOnce struct {
	real    sync.Once
	done    bool
	running bool
}

func (o *verifOnce) Do(f func()) {
	rt := verifRT
	if rt == nil {
		o.real.Do(func() {
			if !o.done {
				defer func() { o.done = true }()
				f()
			}
		})
		return
	}
	rt.YieldUntil("once.Do", func() bool { return !o.running })
	if o.done {
		return
	}
	o.running = true
	defer func() { o.done = true; o.running = false }()
	f()
}

// verifPool stands in for sync.Pool: a last-in-first-out free list that never drops anything. sync.Pool may hand back
// any object that was Put, or a new one; always handing back the most recent one is the legal behaviour under which
// a use-after-Put shows every time, and it is the same in every run (sync.Pool's per-P caches are not).
type verifPool struct {
	New   func() any
	mu    sync.Mutex
	items []any
	epoch uint64
}

// fresh empties the list when a new simulated run has begun (called with mu held).
func (p *verifPool) fresh() {
	if e := atomic.LoadUint64(&verifEpoch); e != p.epoch {
		p.items, p.epoch = nil, e
	}
}

func (p *verifPool) Get() any {
	p.mu.Lock()
	p.fresh()
	if n := len(p.items); n > 0 {
		x := p.items[n-1]
		p.items = p.items[:n-1]
		p.mu.Unlock()
		return x
	}
	p.mu.Unlock()
	if p.New != nil {
		return p.New()
	}
	return nil
}

func (p *verifPool) Put(x any) {
	if x == nil {
		return
	}
	p.mu.Lock()
	p.fresh()
	p.items = append(p.items, x)
	p.mu.Unlock()
}
