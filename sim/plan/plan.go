// Package plan holds the per-property budgets and descriptive texts shared by
// the driver (evidence) and the checks.
package plan

type Tier struct {
	Cases   int     // total cases over all jobs
	PerJob  int     // cases per worker process
	Seconds float64 // wall-clock cap per worker process
}

type Prop struct {
	ID          string
	Level       string
	Quick       Tier
	Thorough    Tier
	Rule        string
	Assumptions []string
	Real        []string
	Stub        []string
}

var Props = map[string]*Prop{}

func reg(p *Prop) { Props[p.ID] = p }

func init() {
	reg(&Prop{ID: "C12", Level: "exploration",
		Quick:    Tier{Cases: 60000, PerJob: 4000, Seconds: 40},
		Thorough: Tier{Cases: 4000000, PerJob: 50000, Seconds: 600},
		Rule:     "one case = 2..6 caller tasks x 1..3 operations (get/has/store) over 1..3 chunk IDs through DedupQueue or WriteDedupQueue, upstream outcomes (data/missing/error), latency and every scheduling decision drawn from the tape; distinct = distinct (configuration class, scheduler trace hash, number of upstream calls); non-trivial = at least one preemption or injected upstream fault",
		Assumptions: []string{
			"the scheduler serialises tasks at channel operations, lock acquisitions and upstream calls; interleavings below that granularity (plain memory accesses) are not explored",
			"'in flight during its own call' is measured against the leader's call through the queue (DESIGN.md C12 interpretation note)",
		},
		Real: []string{"DedupQueue", "WriteDedupQueue", "queue", "request"},
		Stub: []string{"upstream store (gated, unique result tokens)", "scheduler", "fake clock (synctest)"},
	})
	reg(&Prop{ID: "C02", Level: "exploration",
		Quick:    Tier{Cases: 160000, PerJob: 10000, Seconds: 60},
		Thorough: Tier{Cases: 6000000, PerJob: 100000, Seconds: 1200},
		Rule: "one case = tape-built blob (random / zero runs near multiples of max / constant / low-entropy / copied segments, 0..40*max bytes) x (min,avg,max) from a table incl. min=avg, min=max and random triples x one of {IndexFromFile with n in 1..16 under the seeded scheduler, ChunkStream with n in 1..8 over a fragmenting reader and a gated store, Chunker.Next over a fragmenting/failing reader}; oracle = independent reference chunker pinned to the casync-made testdata/chunker.index; distinct = distinct (entry point, n, sizes, scheduler trace hash); non-trivial = at least one preemption, a fragmenting reader or an injected reader error",
		Assumptions: []string{
			"scheduling granularity = channel operations, select, close, len(chan), Once.Do; plain field accesses between them are not interleaved (sound for data-race-free executions)",
			"inputs are bounded by 64 KiB; chunk sizes 48..8192",
			"the reference chunker tests the discriminator first at min+1 as the property states",
		},
		Real: []string{"Chunker", "IndexFromFile", "pChunker", "ChunkStream", "ChunkStorage", "NullChunk", "Digest"},
		Stub: []string{"input reader (fragmenting / failing)", "target store", "scheduler"},
	})
}
