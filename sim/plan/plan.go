// Package plan holds the per-property budgets and descriptive texts shared by
// the driver (evidence) and the checks.
package plan

type Tier struct {
	Cases   int     // total cases over all jobs
	PerJob  int     // cases per worker process
	Seconds float64 // wall-clock cap per worker process
}

type Prop struct {
	ID          string
	Level       string
	Quick       Tier
	Thorough    Tier
	Rule        string
	Assumptions []string
	Real        []string
	Stub        []string
}

var Props = map[string]*Prop{}

func reg(p *Prop) { Props[p.ID] = p }

func init() {
	reg(&Prop{ID: "C12", Level: "exploration",
		Quick:    Tier{Cases: 60000, PerJob: 4000, Seconds: 40},
		Thorough: Tier{Cases: 4000000, PerJob: 50000, Seconds: 600},
		Rule:     "one case = 2..6 caller tasks x 1..3 operations (get/has/store) over 1..3 chunk IDs through DedupQueue or WriteDedupQueue, upstream outcomes (data/missing/error), latency and every scheduling decision drawn from the tape; distinct = distinct (configuration class, scheduler trace hash, number of upstream calls); non-trivial = at least one preemption or injected upstream fault",
		Assumptions: []string{
			"the scheduler serialises tasks at channel operations, lock acquisitions and upstream calls; interleavings below that granularity (plain memory accesses) are not explored",
			"'in flight during its own call' is measured against the leader's call through the queue (DESIGN.md C12 interpretation note)",
		},
		Real: []string{"DedupQueue", "WriteDedupQueue", "queue", "request"},
		Stub: []string{"upstream store (gated, unique result tokens)", "scheduler", "fake clock (synctest)"},
	})
}
