// Package plan holds the per-property budgets and descriptive texts shared by
// the driver (evidence) and the checks.
package plan

type Tier struct {
	Cases   int     // total cases over all jobs
	PerJob  int     // cases per worker process
	Seconds float64 // wall-clock cap per worker process
}

type Prop struct {
	ID          string
	Level       string
	Quick       Tier
	Thorough    Tier
	Rule        string
	Assumptions []string
	Real        []string
	Stub        []string
}

var Props = map[string]*Prop{}

func reg(p *Prop) { Props[p.ID] = p }

func init() {
	reg(&Prop{ID: "C12", Level: "exploration",
		Quick:    Tier{Cases: 60000, PerJob: 4000, Seconds: 40},
		Thorough: Tier{Cases: 4000000, PerJob: 50000, Seconds: 600},
		Rule:     "one case = 2..6 caller tasks x 1..3 operations (get/has/store) over 1..3 chunk IDs through DedupQueue or WriteDedupQueue, upstream outcomes (data/missing/error), latency and every scheduling decision drawn from the tape; distinct = distinct (configuration class, scheduler trace hash, number of upstream calls); non-trivial = at least one preemption or injected upstream fault",
		Assumptions: []string{
			"the scheduler serialises tasks at channel operations, lock acquisitions and upstream calls; interleavings below that granularity (plain memory accesses) are not explored",
			"'in flight during its own call' is measured against the leader's call through the queue (DESIGN.md C12 interpretation note)",
		},
		Real: []string{"DedupQueue", "WriteDedupQueue", "queue", "request"},
		Stub: []string{"upstream store (gated, unique result tokens)", "scheduler", "fake clock (synctest)"},
	})
	reg(&Prop{ID: "C02", Level: "exploration",
		Quick:    Tier{Cases: 160000, PerJob: 10000, Seconds: 60},
		Thorough: Tier{Cases: 6000000, PerJob: 100000, Seconds: 1200},
		Rule:     "one case = tape-built blob (random / zero runs near multiples of max / constant / low-entropy / copied segments, 0..40*max bytes) x (min,avg,max) from a table incl. min=avg, min=max and random triples x one of {IndexFromFile with n in 1..16 under the seeded scheduler, ChunkStream with n in 1..8 over a fragmenting reader and a gated store, Chunker.Next over a fragmenting/failing reader}; oracle = independent reference chunker pinned to the casync-made testdata/chunker.index; distinct = distinct (entry point, n, sizes, scheduler trace hash); non-trivial = at least one preemption, a fragmenting reader or an injected reader error; 1/800 of the cases run the real `desync chunk -m` and `desync make -n N` (N = 1, 2..5, 6..16; sizes in KiB incl. min = avg = max; inputs incl. a long zero run with a short tail; both digests) and compare the printed boundaries/ids and the written index with the independent chunker and parser",
		Assumptions: []string{
			"scheduling granularity = channel operations, select, close, len(chan), Once.Do; plain field accesses between them are not interleaved (sound for data-race-free executions)",
			"inputs are bounded by 64 KiB; chunk sizes 48..8192",
			"the reference chunker tests the discriminator first at min+1 as the property states",
		},
		Real: []string{"Chunker", "IndexFromFile", "pChunker", "ChunkStream", "ChunkStorage", "NullChunk", "Digest", "the desync binary built from cmd/desync (process-level share)"},
		Stub: []string{"input reader (fragmenting / failing)", "target store", "scheduler"},
	})
	reg(&Prop{ID: "C01", Level: "exploration",
		Quick:    Tier{Cases: 40000, PerJob: 2500, Seconds: 70},
		Thorough: Tier{Cases: 1500000, PerJob: 25000, Seconds: 1500},
		Rule:     "one case = blob (empty / all-zero / shorter than a chunk / segment mix up to 48 chunks) x chunk sizes below and above the 4 KiB block x 0..3 seeds (edited copies, identical, empty file + empty index, duplicates, stale or truncated after indexing, the target itself) x prior target content (absent, empty, garbage, longer, shorter, older version, already correct, non-zero where the blob is zero) x N in 1..8 x invalid-seed action x {cloning filesystem emulated, no cloning}; 1/4 of cases inject store faults (k-th GetChunk fails / missing / slow), 1/6 rewrite part of a seed file at a tape-chosen I/O point during the run, 1/3 make every file-system call a scheduling point; oracle = nil => target bytes == blob, and success required when the liveness clause applies; distinct = distinct (configuration class, scheduler trace hash, clone-call counts); non-trivial = preemption or fault fired; 1/80 of the cases run the real `desync extract` binary (seeds as files with .caibx indexes, --skip-invalid-seeds / --regenerate-invalid-seeds, --in-place, prior destination content) against a real local store with the same oracle; a fifth of the process-level cases run the command as a ptrace tracee and make one drawn file-system system call fail (ENOSPC / EIO / EDQUOT for calls that need space - once, or from then on as on a disk that stays full; EIO / EACCES / EPERM / EROFS for rename, unlink, chmod, chown, utimensat ...): the command may fail, but exit status 0 with a result the oracle rejects is a violation",
		Assumptions: []string{
			"FICLONERANGE is emulated in process with the alignment, EOF, length-0 and overlap rules of ioctl_ficlonerange(2)/generic_remap_checks; block size 4096 (tmpfs st_blksize)",
			"scheduling granularity = channel/lock/store operations (plus file-system calls in 1/3 of the cases)",
			"the target is a regular file on tmpfs; block devices are not simulated",
		},
		Real: []string{"AssembleFile", "writeChunk", "SeedSequencer", "Plan.Validate", "FileSeed", "fileSeedSegment", "selfSeed", "nullChunkSeed", "RegenerateIndex/IndexFromFile", "the desync binary built from cmd/desync (process-level share)"},
		Stub: []string{"chunk store", "FICLONERANGE (emulator)", "scheduler", "seed mutator"},
	})
	reg(&Prop{ID: "C07", Level: "exploration",
		Quick:    Tier{Cases: 3200, PerJob: 200, Seconds: 60},
		Thorough: Tier{Cases: 160000, PerJob: 2500, Seconds: 1500},
		Rule:     "one case = one entry point (AssembleFile incl. seed validation, VerifyIndex on a file with one damaged byte, ChopFile, Copy, ChunkStream, IndexFromFile, Tar, UnTar, UnTarIndex) with a tape-built workload and worker count; run A records a seeded schedule of S steps without cancellation, then the same schedule is re-run with the context cancelled before scheduling decision k for every k in 0..S+1 (S <= 150) or 60 tape-chosen k (sub_evaluations counts these runs); oracle: nil result => work complete (target == blob / every chunk stored / index covers the input / tree complete), the call returns, no panic; distinct = distinct (entry point, schedule hashes); non-trivial = at least one cancellation fired; 1/10 of the cases run the real `desync` binary (extract with/without --in-place, --print-stats, -c cache; chop; cache; make with/without --print-stats; untar -i with/without cache; -n 1 or 3) against a gated loopback chunk server that holds request k while SIGINT or SIGTERM is delivered, for k = 1, last and 6 tape-chosen k: exit status 0 => work complete, a failed extract leaves the destination as it was; the process-level share also covers tar -i (PUT held) and untar --output-format gnu-tar (complete = a well-formed archive listing every entry with its content); one process-level case in eight instead runs `desync prune` against a simulated S3 endpoint (2..12 objects under one of three prefixes, some referenced by the index) that holds the first LIST or the k-th DELETE while the signal is delivered, four runs per hold point: exit 0 => no unreferenced object is left",
		Assumptions: []string{
			"cancellation is delivered between two scheduling decisions (channel/lock/store operation granularity)",
			"a cancelled call that did finish its work may return nil or an error; only nil with incomplete work is a violation",
			"in the bubble, signals are represented by cancellation of the root context, which is all cmd/desync/main.go does on SIGINT/SIGTERM; the process-level share delivers the real signals",
		},
		Real: []string{"AssembleFile", "Plan.Validate", "VerifyIndex", "ChopFile", "Copy", "ChunkStream", "IndexFromFile", "Tar", "UnTar", "UnTarIndex", "the desync binary built from cmd/desync (process-level share)"},
		Stub: []string{"chunk stores", "scheduler", "context cancellation instant", "gated HTTP chunk server (process level)"},
	})
	reg(&Prop{ID: "C06", Level: "exploration",
		Quick:    Tier{Cases: 80000, PerJob: 5000, Seconds: 60},
		Thorough: Tier{Cases: 3000000, PerJob: 50000, Seconds: 1500},
		Rule:     "one case = blob (2/3 built from few distinct chunks repeated so that workers race on one ID, 1/3 generic) x one of {ChopFile, Copy (with and without duplicate ids), ChunkStream, make = IndexFromFile + ChopFile} x n in 1..8 x optional pre-filled target x fault budget 0..3 (the k-th HasChunk / StoreChunk of the target or GetChunk of the source fails or is slow; 1/3 of the cases are fault-free); oracle: nil => no injected failure was returned to desync, every index chunk is in the target store with correct bytes, a produced index equals the reference table; error => some failure was injected; 1/100 of the cases run the real `desync chop | cache | make | tar -i` binary (-e 0) against a loopback chunk server that answers the k-th HEAD/PUT/GET with 500: exit status must be non-zero then, and the store (and index) complete on exit 0; distinct = distinct (class, scheduler trace hash); non-trivial = preemption or fault fired; a fifth of the process-level cases run the command as a ptrace tracee and make one drawn file-system system call fail (ENOSPC / EIO / EDQUOT for calls that need space - once, or from then on as on a disk that stays full; EIO / EACCES / EPERM / EROFS for rename, unlink, chmod, chown, utimensat ...): the command may fail, but exit status 0 with a result the oracle rejects is a violation; the process-level chop/cache cases may pass --ignore with an index naming a third of the chunks (the others must still arrive)",
		Assumptions: []string{
			"store failures are injected at call granularity (the call returns an error without side effect)",
			"in-bubble, tar -i is covered through ChunkStream (the same function the command uses) with a byte reader instead of the tar pipe; the command itself runs at process level",
		},
		Real: []string{"ChunkStorage", "ChopFile", "Copy", "ChunkStream", "IndexFromFile", "readChunkFromFile", "the desync binary built from cmd/desync (process-level share)"},
		Stub: []string{"source and target stores (fault injecting)", "scheduler"},
	})
	reg(&Prop{ID: "C11", Level: "exploration",
		Quick:    Tier{Cases: 160000, PerJob: 10000, Seconds: 60},
		Thorough: Tier{Cases: 8000000, PerJob: 100000, Seconds: 1500},
		Rule:     "one case = chain shape as the CLI builds it (router of 1..3 elements, each a store or a failover group of 2..4, optionally under a cache with or without repair, optionally under a SwapStore with a second chain swapped in by a reconfiguration task, or - as the writable chunk server builds it - one writable member under a SwapWriteStore with Get/Has/Store clients) x per-member content per id {has, missing, invalid} x per-member fault schedule {healthy, always failing, failing during calls k..k+j} x 1..4 client tasks issuing 1..8 Get/Has over 2..4 ids under the seeded scheduler; oracle: per operation the member calls made by that task must be exactly the calls the documented policy makes given the observed member outcomes (with a single client the failover member tried after an error is predicted exactly; with several it must be one the group could have been pointing at), and the result must be what the policy yields (swap: old chain before, new chain after, exactly one of them when overlapping; old members closed once, after their in-flight requests, never used afterwards); distinct = distinct (shape, clients, trace hash, member-call count); non-trivial = preemption or member fault fired; 1/400 of the cases give the real `desync cat` / `desync extract -n 1` a chain on its command line (1..3 -s arguments, each a local directory, a loopback HTTP server or a a|b|c failover group of those; optional -c cache pre-filled with valid and invalid chunks, with the default --cache-repair or --cache-repair=false; members healthy, answering 503 to everything, or dead; per-chunk content present / missing / a valid object of other data): exit status and output must be what the documented policy yields, every answering HTTP member must have seen exactly the requests the policy predicts, in order, and after a success the cache holds every chunk valid; a quarter of these cases instead start the real `desync chunk-server --store-file f [-u]` (with or without a cache in the file), hold a request in the old upstream, rewrite f to a second upstream and send SIGHUP while a steady stream of requests for a chunk both upstreams hold keeps going: the in-flight request must complete with the right data, the stream must never see an error, and afterwards the new chain answers (a chunk only the old one had is missing)",
		Assumptions: []string{
			"which failover member is consulted at each attempt is not predicted (it depends on a shared index); the oracle bounds attempts by the group size and requires success whenever one member never fails",
			"de-duplication queues in chains are covered by C12, not here",
		},
		Real: []string{"StoreRouter", "Cache", "RepairableCache", "FailoverGroup", "SwapStore", "the desync binary built from cmd/desync (process-level share)"},
		Stub: []string{"member stores (content + fault schedule, call log)", "scheduler", "loopback HTTP members and local directories (process level)"},
	})
	reg(&Prop{ID: "C09", Level: "exploration",
		Quick:    Tier{Cases: 120000, PerJob: 7500, Seconds: 60},
		Thorough: Tier{Cases: 6000000, PerJob: 100000, Seconds: 1500},
		Rule:     "one case = blob (empty, single short chunk, all-null, built from repeated chunks, generic with an inserted run of null chunks) x small chunk sizes x one of {IndexPos Seek/Read history of 1..60 operations with every whence, in/out-of-range and boundary offsets and read lengths 0..3*max; FUSE index-file node read requests (offset,size) in any order on 1..3 handles; the same on one handle shared by 2..3 concurrent tasks under the seeded scheduler} x store faults (k-th GetChunk fails or reports missing) in half of the cases; oracle = bytes.Reader-style model over the blob (returned bytes equal the blob range, short only at EOF or with an error, failed seek keeps the position, errors only when a fault was injected during the call, no panic); sub_evaluations = individual Seek/Read/FUSE requests; distinct = distinct (mode, sizes, faulty, chunk-count bucket, trace hash, outcome); every case is counted non-trivial (each is a multi-operation history); 1/400 of the cases run the real `desync cat -o <offset> -l <length>` binary against a real local store; a fifth of the process-level cases run the command as a ptrace tracee and make one drawn file-system system call fail (ENOSPC / EIO / EDQUOT for calls that need space - once, or from then on as on a disk that stays full; EIO / EACCES / EPERM / EROFS for rename, unlink, chmod, chown, utimensat ...): the command may fail, but exit status 0 with a result the oracle rejects is a violation",
		Assumptions: []string{
			"no FUSE mount is possible in the sandbox: the node methods (Open/Read/Getattr) are driven in process, the kernel <-> go-fuse path is not exercised",
			"FUSE offsets are limited to 0..size as the kernel does after Getattr",
		},
		Real: []string{"IndexPos", "NewIndexReadSeeker", "indexFile", "indexFileHandle", "NullChunk", "the desync binary built from cmd/desync (process-level share)"},
		Stub: []string{"chunk store (fault injecting)", "kernel/go-fuse bridge", "scheduler"},
	})
	reg(&Prop{ID: "C10", Level: "exploration",
		Quick:    Tier{Cases: 40000, PerJob: 2500, Seconds: 60},
		Thorough: Tier{Cases: 2000000, PerJob: 25000, Seconds: 1500},
		Rule:     "one case = blob <= 24 chunks (null-chunk runs, repeated chunks, generic) x 1..3 phases; each phase opens a SparseFile on the same cache/state files (a restart) and runs 1..4 concurrent reader tasks (ReadAt or the FUSE sparse-file node) with 1..12 reads each, 0..2 tasks that save the state at tape-chosen moments, optional preload from an earlier state with 0..4 workers, transient store failures / missing / latency (2/3 of the phases) or a store that fails every request after a restart (1/3 of later phases), process death at a tape-chosen scheduling step (1/4 of the phases; only files survive); between phases the state file may be removed or replaced by one of another length and the cache file removed, shrunk or grown; a later phase may be preceded by a start that names a missing or foreign pre-load state file and therefore fails half-way; oracle per read: bytes == blob range or an error attributable to a store failure injected for one of its chunks during the call; distinct = distinct (class, trace hashes); non-trivial = preemption or fault fired",
		Assumptions: []string{
			"process death is modelled by freezing every task at a scheduling point (file-system calls are scheduling points in half of the cases) and reopening from the files; this equals SIGKILL for file contents because the page cache survives process death and desync buffers nothing in user space on this path",
			"reads with offset > size are only issued through ReadAt, not through the FUSE node (the kernel clamps them)",
		},
		Real: []string{"SparseFile", "SparseFileHandle", "sparseFileLoader", "sparseIndexFile (FUSE node)", "state save/load/preload"},
		Stub: []string{"chunk store (fault injecting)", "kernel/go-fuse bridge", "scheduler", "crash instant"},
	})
	reg(&Prop{ID: "C17", Level: "fault_enumeration",
		Quick:    Tier{Cases: 1600, PerJob: 100, Seconds: 60},
		Thorough: Tier{Cases: 120000, PerJob: 1500, Seconds: 1500},
		Rule:     "one case = blob (generic, optionally with runs of different constant bytes so that equal-size chunks with different IDs exist; up to 400 chunks so that batch sizes > 1 occur) x worker count n in 1..64 (incl. n chosen so that chunks/(10n) >= 1); the intact file must verify; then every fault of the enumeration must be rejected: a single changed byte at EVERY position for blobs <= 1500 bytes, else at 24 positions biased to the first, last and batch-boundary chunks, truncation and extension by 1 and by tape-chosen amounts (also extension by a copy of the tail), and a swap of two equal-size chunks; every verification runs VerifyIndex with its n workers under the seeded scheduler (sub_evaluations = verifications); distinct = distinct (sizes, n, batch, trace hashes); non-trivial = a fault was applied; 1/12 of the cases run the real `desync verify-index` binary (exit status 0 iff the file matches)",
		Assumptions: []string{
			"single-byte change = one bit flipped in that byte; other byte values are covered by the hash's properties, not enumerated",
			"exhaustive over byte positions only for blobs <= 1500 bytes (stated per case in the notes)",
		},
		Real: []string{"VerifyIndex", "fileSeedSegment.Validate", "Digest", "the desync binary built from cmd/desync (process-level share)"},
		Stub: []string{"scheduler", "fault injector on the stored blob"},
	})
	reg(&Prop{ID: "C03", Level: "fault_enumeration",
		Quick:    Tier{Cases: 8000, PerJob: 500, Seconds: 70},
		Thorough: Tier{Cases: 160000, PerJob: 2000, Seconds: 1500},
		Rule:     "one case = backend {LocalStore, RemoteHTTP client -> in-process transport -> HTTPHandler -> LocalStore, casync protocol client <-> ProtocolServer over a pipe (server store configured as `desync pull` does), S3Store against an in-harness S3 endpoint on loopback, SFTPStore against an sftp server (pkg/sftp) spoken over stdio by a CASYNC_SSH_PATH shim} x upstream format {compressed, uncompressed} x server compression/verification settings x wrapper stack {none, cache, cache+repair, router, failover group, dedup queue, swap(dedup(cache(router(failover))))} x chunk (1..300 bytes, 1/4 up to 4 KiB); the stored object is then corrupted in every way of the enumeration and fetched through a fresh stack each time: a bit flip in EVERY byte and truncation to EVERY length when the stored object is <= 512 bytes (64 sampled each otherwise), replaced by another valid object / a valid zstd frame of other data / raw bytes / the other format, garbage, junk before or after; plus a corrupted cache entry and one extract or cat pipeline over a poisoned store; oracle: error, or data hashing to the requested ID (pipelines: error or exactly the blob); sub_evaluations = faulted fetches; distinct = distinct (backend, formats, stack, tape); non-trivial = a fault was applied; every probe also fetches a second chunk through the same stack before the first one's data is examined (a held chunk must survive the next fetch); behind the protocol server the store may label what it returns by content; 1/50 of the cases plant one damaged object (bit flip, truncation, emptied, other chunk, other data, wrong format, appended byte) in a directory, a loopback HTTP server or behind the real `desync chunk-server` and run the real extract / cat / cache on it with a config file that names the store's format plus decoy and near-miss entries switching verification off for other locations (a prefix, a sibling, the parent, a sub-path, another port, non-matching globs - chosen with the documented matching rule as reference) and -t / -c flags: exit status 0 requires the output (and whatever entered the cache) to be the blob",
		Assumptions: []string{
			"the S3 endpoint is a minimal path-style server written for the harness, signatures are not checked",
			"no hop facing the caller has SkipVerify set; server-side stores may (the client hop verifies)",
		},
		Real: []string{"NewChunkFromStorage", "Chunk.Data/ID", "LocalStore", "RemoteHTTP", "HTTPHandler", "Protocol", "ProtocolServer", "Cache", "RepairableCache", "StoreRouter", "FailoverGroup", "DedupQueue", "SwapStore", "AssembleFile", "IndexPos", "S3Store (minio client)", "the desync binary built from cmd/desync (process-level share)"},
		Stub: []string{"HTTP transport (in-process RoundTripper)", "ssh transport (in-process pipe)", "S3 endpoint (loopback)", "fault injector on stored objects"},
	})
	reg(&Prop{ID: "C14", Level: "exploration",
		Quick:    Tier{Cases: 48000, PerJob: 3000, Seconds: 70},
		Thorough: Tier{Cases: 2400000, PerJob: 40000, Seconds: 1500},
		Rule:     "one case = one of {chunk GET/HEAD/PUT through the real RemoteHTTP client and HTTPHandler over an in-process transport, for every combination of client/server -u, upstream format, verify flags per hop; index GET/PUT through RemoteHTTPIndex and HTTPIndexHandler (optionally chained behind a second index server) and HEAD on the index handler; a casync-protocol session of 1..8 requests against ProtocolServer over a pipe with byte-wise fragmentation and the connection cut after a tape-chosen byte, half of them followed by two overlapping GETs through a compressed HTTPHandler in front of that session (the second request runs inside the first Write of the first response, when the session is free again): both 200 bodies must be the chunks asked for} x response script (0..7 transient failures out of {connection reset, 500, 503, short body, response delayed past the client time-out}, then served / 404 / 400 / 403) x error-retry 0..5 x back-off base 1..500 ms, all in fake time; oracle: payload byte-identical, missing <=> ChunkMissing/NoSuchObject/false/404, failures never reported as missing or success, transient runs shorter than the budget invisible, requests seen == min(f+1, max(1, error-retry)), simulated time spent == documented linear back-off (+ time-outs); distinct = distinct (class incl. script shape, trace hash / tape); non-trivial = a transport fault fired or a multi-request session ran; 1/100 of the cases are process-level: the real `desync chunk-server [-u] [-w]` or `desync index-server [-w]` on a loopback port over a local store, talked to by the real HTTP client (present / missing / HEAD / PUT); `desync cat --config cfg [-e E] [-b I]` against a server answering the first f requests per object with 503 (budget = config store-options unless -e is given; attempts per fetch bounded, f < budget invisible, f >= budget an error); the casync protocol end to end: RemoteSSHStore (sequential requests, FIFO session pool modelled) or `desync extract|cache -s ssh://` over an ssh shim that runs the real `desync pull` on a compressed or (config file) uncompressed local store, with chunks missing and the link dying after n bytes of server output; a tenth of the cases let 2..4 clients fetch 1..4 of 2..4 indexes and chunks each from one index / chunk handler at the same time under the seeded scheduler, through a response writer that holds the handler's slice across a scheduling point (a slow client): every response must be the object asked for",
		Assumptions: []string{
			"client and server agree on -u (the chunk file extension is part of the request path); mismatched pairs are a configuration error and not generated",
			"after a missing chunk the protocol server ends the session; later requests on that session may fail but must not be answered wrongly",
			"TLS and authentication headers are not exercised; real sockets and child processes only in the process-level share",
		},
		Real: []string{"RemoteHTTP", "RemoteHTTPIndex", "IssueRetryableHttpRequest", "HTTPHandler", "HTTPIndexHandler", "Converters", "Protocol", "ProtocolServer", "LocalStore", "LocalIndexStore", "the desync binary built from cmd/desync (process-level share)"},
		Stub: []string{"HTTP transport (scripted in-process RoundTripper)", "ssh pipe", "fake clock (synctest)"},
	})
	reg(&Prop{ID: "C04", Level: "fault_enumeration",
		Quick:    Tier{Cases: 4800, PerJob: 300, Seconds: 70},
		Thorough: Tier{Cases: 400000, PerJob: 5000, Seconds: 1500},
		Rule:     "one case = generated index (0..200 chunks, 1/12 of the cases 250..1050 chunks, sizes <= max, random IDs, arbitrary extra feature flags, SHA512/256 or SHA256 process digest - configured as a plain value, as a pointer or inside a caller's own HashAlgorithm type, 1/6 of the cases each for the latter two) written with Index.WriteTo; the bytes must parse with the independent caibx parser to the same table (tail marker offsets/sizes included); read back through a fragmenting stream reader, LocalIndexStore, RemoteHTTPIndex+HTTPIndexHandler (also stored through the HTTP client), S3IndexStore against the in-harness S3 endpoint (GetIndex; StoreIndex = multipart upload in 1/4 of these) or SFTPIndexStore against the pkg/sftp server behind the ssh shim (GetIndex and StoreIndex) it must equal what was written; then EVERY strict prefix (stream, files <= 9000 bytes; 700 evenly spaced prefixes above that) or <= 600 evenly spaced prefixes plus the boundary lengths (stores), two swapped offsets, a chunk enlarged beyond max and a flipped digest flag must each be rejected; 1/10 of the cases re-encode a casync-made fixture byte-identically; sub_evaluations = reads; distinct = distinct tapes; non-trivial = a fault was applied; StoreIndex through the local, HTTP and SFTP stores goes over an older, longer file of the same name and must leave exactly the bytes of Index.WriteTo",
		Assumptions: []string{
			"the round-trip half is a pure function of the index; it runs here as the fault-free configuration of the same harness (DESIGN.md C04 honest limit)",
			"the console (stdin/stdout) index store is exercised at process level only: 1/25 of the cases run the real `desync list-chunks` and `desync info` on the index file or on standard input (intact: printed table/parameters equal the index; 6 truncations, swapped offsets, oversize chunk, flipped digest flag: exit status must be non-zero) and `desync make -` (bytes on standard output == bytes written to a file == independent chunker and parser)",
		},
		Real: []string{"Index.WriteTo", "IndexFromReader", "FormatDecoder", "FormatEncoder", "LocalIndexStore", "RemoteHTTPIndex", "HTTPIndexHandler", "S3IndexStore (minio-go client)", "SFTPIndexStore (pkg/sftp client)", "ConsoleIndexStore via desync list-chunks/info/make -", "the desync binary built from cmd/desync (process-level share)"},
		Stub: []string{"HTTP transport", "S3 endpoint (in-harness, path style, signatures unchecked)", "sftp server (pkg/sftp over stdio)", "fragmenting reader", "fault injector on stored index bytes"},
	})
	reg(&Prop{ID: "C19", Level: "fault_enumeration",
		Quick:    Tier{Cases: 960, PerJob: 60, Seconds: 70},
		Thorough: Tier{Cases: 96000, PerJob: 1000, Seconds: 1500},
		Rule:     "one case = a valid stream (generated index of 0..59 chunks; a casync-made catar fixture or the archive of a generated tree (xattrs, devices, symlinks, hostile names); a sequence of casync protocol messages; or one side of a protocol session - HELLO, 1..6 REQUESTs for stored chunks, GOODBYE as a server receives them, or HELLO and 1..6 CHUNK/MISSING replies as a client receives them) fed to one decoder (IndexFromReader, HTTP index handler PUT, FormatDecoder.Next, ArchiveDecoder.Next, Protocol.ReadMessage, ProtocolServer.Serve, Protocol.Initialize + RequestChunk) through a reader that injects: truncation at EVERY byte (<= 3000 evenly spaced for long streams), EVERY element/message size field set to each of 0, 1, 8, 15, 16, 17, 24, 31..33, 40, 47, 48, 63..65, size-1, size+1, size+24, 2^20, 2^50, 2^63, 2^64-1, 2^64-16 (and 2^28 occasionally), every type field replaced by another element type, 64 random bit flips, fragmented reads, and I/O errors at a tape-chosen read; oracle: no panic, bytes allocated by the call <= 8*len(input)+128 KiB (runtime.MemStats delta; the two session targets get 64 KiB more per message of the valid stream, the measured fixed cost of reading and compressing one small chunk), reader errors surface; sub_evaluations = faulted decodes; distinct = distinct tapes; non-trivial = a fault was applied; 1/12 of the cases write a faulted index or archive (truncation, size field set to a critical value incl. 2^31 and 2^36, type field replaced, bit flip; 8 per case) to a file and run the real `desync list-chunks` / `desync info` (index) or `desync mtree` / `desync untar` (archive) on it with the address space capped at 4 GiB: no panic, no runtime fatal error, exit status 0 or 1; every third element additionally gets each of 19 element types combined with each of 18 sizes around the fixed parts (16..72)",
		Assumptions: []string{
			"'all byte strings' is explored only as faulted valid streams (DESIGN.md C19 honest limit)",
			"size values between 2^31 and 2^47 are not injected: the unpatched decoder would really try to allocate them and take the sandbox down; 2^20/2^28 (really allocated) and >= 2^50 (makeslice panic) bracket that range",
			"catar inputs are the five casync-made fixtures of the repository or archives produced by desync itself from generated trees",
		},
		Real: []string{"IndexFromReader", "FormatDecoder", "ArchiveDecoder", "Protocol.ReadMessage", "HTTPIndexHandler.put", "reader", "the desync binary built from cmd/desync (process-level share)"},
		Stub: []string{"faulting reader", "HTTP request recorder"},
	})
	reg(&Prop{ID: "C05", Level: "exploration",
		Quick:    Tier{Cases: 9600, PerJob: 600, Seconds: 70},
		Thorough: Tier{Cases: 640000, PerJob: 8000, Seconds: 1500},
		Rule:     "one case = random tree created as root on tmpfs (<= 40 entries, depth <= 5: nested and empty directories, files of 0..16 KiB, symlinks to anything, char/block devices, user xattrs, arbitrary uid/gid, permission + set-id/sticky bits, arbitrary ns mtimes, names with any bytes except '/' and NUL) x digest {SHA512/256, SHA256} x one of {catar: Tar -> UnTar; caidx+store: Tar -> pipe -> ChunkStream(n) -> index written and re-read -> UnTarIndex(n) with a slow, reordering store, all under the seeded scheduler; GNU-tar output parsed with archive/tar; mtree output read back by an mtree(5) parser; tar-stream input built with archive/tar, optionally cut inside a member}; oracle: lstat/readlink/xattr/content/mtime snapshot of source and result equal (ranked categories), two packings byte-identical, chunked archive bytes == direct archive bytes; distinct = distinct (path, digest, size bucket, trace hash / tape); every case is non-trivial (a generated tree); 1/60 of the cases run the real `desync tar`, `desync untar` and `desync mtree` binaries (catar file or -i with a local store, default or --digest sha256, disk or --input-format tar input incl. a truncated tar file) on a generated tree with the same snapshot oracle; a fifth of the process-level cases run the command as a ptrace tracee and make one drawn file-system system call fail (ENOSPC / EIO / EDQUOT for calls that need space - once, or from then on as on a disk that stays full; EIO / EACCES / EPERM / EROFS for rename, unlink, chmod, chown, utimensat ...): the command may fail, but exit status 0 with a result the oracle rejects is a violation; the process-level cases also draw --no-same-owner, --no-same-permissions, --no-time and -x (each waives one attribute, the rest is compared, and with --no-same-owner everything must belong to the invoking user) and unpack the same archive with --output-format gnu-tar into a file that must be a whole number of 512-byte blocks, end in two zero blocks and list the tree; a third of the disk unpacks (both levels) go into a destination that already holds older entries at some of the archive's paths: files with other content and a stale xattr, two paths sharing one inode, a symlink where a file will be, a file where a symlink or device will be, directories with other permissions; a quarter of the process-level untar runs happen as root without CAP_FSETID (the test binary drops it from the bounding set and execs the real binary): set-id bits must still come out as packed, except set-gid for a group the process is not in, which chmod(2) itself refuses",
		Assumptions: []string{
			"metadata fidelity is input coverage rather than simulation (DESIGN.md C05 honest limit); the simulated part is the five-stage chunked pipeline",
			"GNU tar output: xattrs and sub-second mtimes are not compared (the format cannot carry them); a refusal by archive/tar is not a wrong result",
			"mtree output: xattrs and device numbers are not compared (desync's mtree writer does not carry them); fifos/sockets are not exercised",
		},
		Real: []string{"Tar", "UnTar", "UnTarIndex", "ChunkStream", "ArchiveDecoder", "FormatEncoder/Decoder", "LocalFS", "TarReader", "TarWriter", "Index codec", "the desync binary built from cmd/desync (process-level share)"},
		Stub: []string{"chunk store (latency)", "scheduler"},
	})
	reg(&Prop{ID: "C08", Level: "fault_enumeration",
		Quick:    Tier{Cases: 480, PerJob: 30, Seconds: 80},
		Thorough: Tier{Cases: 16000, PerJob: 500, Seconds: 1500},
		Rule:     "part A (local store): one case = workload {ChopFile, Copy, n+1 tasks storing the same chunks at once} x compressed/uncompressed LocalStore x n in 1..4 x blob of 1..12 chunks; a seeded schedule in which every file-system call is a scheduling point is recorded, then re-run with process death at EVERY file-system point k (<= 120 points; 80 sampled otherwise), each in two variants: death exactly at the point, and death during the write that just happened (a file that was created or grew in the last step is cut to a tape-chosen shorter length: torn write); after each death an independent validator (klauspost zstd + SHA512/256, not desync) checks that every file under a chunk name decodes and hashes to its name and everything else is a .tmp-cacnk* file, Prune removes exactly the temporary files, and (every 7th point) a restart completes the work; sub_evaluations = deaths; part B (1/4 of the cases): the real `desync extract` binary (with/without --in-place, with/without --seed, -n 1 or 4, destination absent / old version / other content) is SIGKILLed while GET request k is held by a gated loopback chunk server, for EVERY k: without --in-place the destination must be untouched, with it a re-run must complete correctly without refetching chunks already written (a chunk counts as written when, read off the file after the kill, every range of its id holds its bytes; with one worker the first range suffices, later occurrences are copied from the target); part C (1/8 of the cases): the real binary (extract, extract --in-place, chop, cache, make into a local store; -n 1 or 3; extract also with --print-stats) runs as a ptrace tracee of the harness, every system call of every thread is inspected, and the process is SIGKILLed in front of the k-th call that changes the file system (open with O_CREAT/O_TRUNC, write/pwrite to a file of the case, truncate, rename, unlink, mkdir, chmod, chown, fsync, link, utimensat, fallocate, clone ioctls, xattr calls), for EVERY k when there are <= 50 such calls, else the first 4, the last 12 and 30 tape-chosen ones: extract must leave the destination in its previous state or complete, extract --in-place must complete on a re-run, the target store must pass the independent validator and a re-run must complete; distinct = distinct (workload, n, format, schedule hash, number of points); non-trivial = a death was injected",
		Assumptions: []string{
			"process death = freezing every task at a file-system point: equivalent to SIGKILL for file contents (page cache survives, no user-space buffering on this path); power loss is out of scope of the property",
			"a torn write is modelled at whole-file granularity on the file that grew in the last step",
		},
		Real: []string{"LocalStore.StoreChunk", "LocalStore.Prune", "ChopFile", "Copy", "ChunkStorage", "tempfile", "the desync binary built from cmd/desync (process-level share)"},
		Stub: []string{"scheduler", "crash injector (task freeze in the bubble; SIGKILL via gated server or ptrace at process level)", "source store"},
	})
	reg(&Prop{ID: "C16", Level: "exploration",
		Quick:    Tier{Cases: 32000, PerJob: 2000, Seconds: 70},
		Thorough: Tier{Cases: 1600000, PerJob: 20000, Seconds: 1500},
		Rule:     "one case = local store directory of 0..40 objects produced by a simulated history: valid chunks in the store's own format, the same chunk in both formats, chunks of the other format only, invalid chunks (bit flip, truncation, other data, emptied), abandoned .tmp-cacnk* files of killed writers, junk files incl. chunk-like names x store mode {compressed, uncompressed} x one of {Prune with reference set none / all / random subset / subset plus absent ids; Verify; Verify with repair, both with n in 1..6 workers sharing one writer under the seeded scheduler}; oracle: expected file set and expected set of reported ids, classified by an independent zstd+SHA validator; distinct = distinct (op, mode, object bucket, tape, trace hash); every case is non-trivial (a populated store); 1/120 of the cases run the real `desync prune -y` / `desync verify [-r]` binary on a compressed local store with unreferenced chunks, a corrupted chunk, a temporary file and junk; S3 keys with a chunk-like name in a directory that is only a prefix of the id, the whole id, empty, or upper case are among the objects that must survive; the process-level prune/verify cases run on compressed stores and on uncompressed ones named in a config file; the store directory itself may be hidden, contain blanks or end in the chunk extension, and abandoned temporary files may lie below a hidden sub-directory; the SFTP part also plants files whose names only resemble an upload's temporary name (a chunk name followed by -1, +digits, .bak, x12, 12a, _7), which must stay",
		Assumptions: []string{
			"the name-filter logic is a pure function of the directory listing (DESIGN.md C16 honest limit); the simulated parts are the store history (killed writers, corruption) and the concurrent Verify workers",
			"SFTP prune is not exercised; S3 prune (1/12 of the cases) runs against a minimal in-harness S3 endpoint",
		},
		Real: []string{"LocalStore.Prune", "LocalStore.Verify", "LocalStore.RemoveChunk", "LocalStore.GetChunk", "the desync binary built from cmd/desync (process-level share)"},
		Stub: []string{"scheduler", "store-history generator"},
	})
}
