package checks

import (
	"bytes"
	"context"
	"fmt"
	"os"
	"path/filepath"
	"testing"

	"verif/fw"
	"verif/simrt"

	"github.com/folbricht/desync"
)

// ---- C02: chunking is deterministic: parallel = sequential = the rule ----

func runC02(c *fw.Case) {
	if desyncBin() != "" && c.ChanceAdded(1, procRate(800), "c02.proc") {
		runC02Proc(c)
		return
	}
	sz := genSizes(c)
	limit := 40 * int(sz.max)
	if limit > 65536 {
		limit = 65536
	}
	blob := genBlob(c, sz, limit)
	if c.Chance(1, 24, "emptyblob") {
		blob = nil
	}
	want := refIndex(blob, sz)
	mode := c.Draw(4, "mode") // 0,1: IndexFromFile  2: ChunkStream  3: Chunker.Next over faulty reader
	c.Note("sizes=%v blob(%s) chunks=%d", sz, describeBlob(blob), len(want))
	switch mode {
	case 0, 1:
		n := c.Range(1, 16, "n")
		c.Class(fmt.Sprintf("IndexFromFile n=%d sizes=%d/%d/%d", n, sz.min, sz.avg, sz.max))
		c.Note("IndexFromFile n=%d", n)
		name := filepath.Join(c.Dir(), "blob")
		if err := os.WriteFile(name, blob, 0644); err != nil {
			c.HarnessError("%v", err)
			return
		}
		var got desync.Index
		var err error
		sr := c.Sim(func(rt *simrt.RT) {
			rt.MaxSteps = 400000
			rt.Go("main", func() {
				got, _, err = desync.IndexFromFile(context.Background(), name, n, sz.min, sz.avg, sz.max, desync.NullProgressBar{})
			})
		})
		if c.StdSimViolations(sr, "IndexFromFile", true) {
			return
		}
		if err != nil {
			c.Violate("unexpected-error", "IndexFromFile", "IndexFromFile failed on a readable file: %v", err)
			return
		}
		checkIndexParams(c, "IndexFromFile", got, sz)
		if cls, d := compareTables(got.Chunks, want); cls != "" {
			c.Violate("index-mismatch", "IndexFromFile/"+cls, "n=%d sizes=%v len=%d: %s", n, sz, len(blob), d)
			return
		}
	case 2:
		n := c.Range(1, 8, "n")
		c.Class(fmt.Sprintf("ChunkStream n=%d sizes=%d/%d/%d", n, sz.min, sz.avg, sz.max))
		c.Note("ChunkStream n=%d", n)
		fr := &fragReader{data: blob, r: c.Rand("frag"), mode: c.Draw(4, "frag.mode"), eofWith: c.Bool("eofwith")}
		st := newSimStore(c, "target")
		var got desync.Index
		var err error
		sr := c.Sim(func(rt *simrt.RT) {
			st.rt = rt
			rt.MaxSteps = 400000
			rt.Go("main", func() {
				ck, e := desync.NewChunker(fr, sz.min, sz.avg, sz.max)
				if e != nil {
					err = e
					return
				}
				got, err = desync.ChunkStream(context.Background(), ck, st, n)
			})
		})
		st.rt = nil
		if c.StdSimViolations(sr, "ChunkStream", true) {
			return
		}
		if err != nil {
			c.Violate("unexpected-error", "ChunkStream", "ChunkStream failed without any injected fault: %v", err)
			return
		}
		checkIndexParams(c, "ChunkStream", got, sz)
		if cls, d := compareTables(got.Chunks, want); cls != "" {
			c.Violate("index-mismatch", "ChunkStream/"+cls, "n=%d sizes=%v len=%d: %s", n, sz, len(blob), d)
			return
		}
		for _, ch := range want {
			if b, ok := st.m[ch.ID]; !ok || !bytes.Equal(b, blob[ch.Start:ch.Start+ch.Size]) {
				c.Violate("chunk-not-stored", "ChunkStream", "chunk %x.. at %d not stored correctly", ch.ID[:4], ch.Start)
				return
			}
		}
	case 3:
		fr := &fragReader{data: blob, r: c.Rand("frag"), mode: c.Draw(4, "frag.mode"), eofWith: c.Bool("eofwith")}
		if c.Chance(1, 3, "reader.fail") {
			fr.failAt = 1 + c.Draw(40, "reader.failat")
		}
		c.Class(fmt.Sprintf("Chunker frag=%d fail=%v sizes=%d/%d/%d", fr.mode, fr.failAt > 0, sz.min, sz.avg, sz.max))
		if fr.mode != 0 {
			c.NonTrivial()
		}
		ck, err := desync.NewChunker(fr, sz.min, sz.avg, sz.max)
		if err != nil {
			c.Violate("unexpected-error", "NewChunker", "valid sizes %v rejected: %v", sz, err)
			return
		}
		var got []desync.IndexChunk
		var gotErr error
		for i := 0; i < len(want)+5; i++ {
			start, b, err := ck.Next()
			if err != nil {
				gotErr = err
				break
			}
			if len(b) == 0 {
				break
			}
			got = append(got, desync.IndexChunk{Start: start, Size: uint64(len(b)), ID: desync.Digest.Sum(b)})
		}
		if fr.Failed {
			c.Fault("reader-error")
			if gotErr == nil {
				c.Violate("reader-error-swallowed", "Chunker.Next", "the reader failed at read %d but Next never returned an error (%d chunks returned)", fr.failAt, len(got))
				return
			}
			// chunks handed out before the error must still be correct
			for i, g := range got {
				if i >= len(want) || g != want[i] {
					c.Violate("index-mismatch", "Chunker.Next/before-error", "chunk %d wrong before the reader error", i)
					return
				}
			}
			c.Outcome("reader-error-surfaced")
			return
		}
		if gotErr != nil {
			c.Violate("unexpected-error", "Chunker.Next", "error without reader failure: %v", gotErr)
			return
		}
		if cls, d := compareTables(got, want); cls != "" {
			c.Violate("index-mismatch", "Chunker.Next/"+cls, "frag mode %d sizes=%v len=%d: %s", fr.mode, sz, len(blob), d)
			return
		}
	}
	// tiling / bounds, re-checked directly on the reference table as a guard on the oracle itself
	var pos uint64
	for i, ch := range want {
		if ch.Start != pos || ch.Size > sz.max || (i < len(want)-1 && ch.Size < sz.min) || ch.Size == 0 {
			c.HarnessError("reference table violates tiling/bounds at %d", i)
			return
		}
		pos += ch.Size
	}
	if pos != uint64(len(blob)) {
		c.HarnessError("reference table does not cover the blob")
		return
	}
	c.Outcome("ok")
}

func checkIndexParams(c *fw.Case, site string, got desync.Index, sz sizes) {
	if got.Index.ChunkSizeMin != sz.min || got.Index.ChunkSizeAvg != sz.avg || got.Index.ChunkSizeMax != sz.max {
		c.Violate("index-params", site, "index records sizes %d/%d/%d, used %v", got.Index.ChunkSizeMin, got.Index.ChunkSizeAvg, got.Index.ChunkSizeMax, sz)
	}
	if got.Index.FeatureFlags&desync.CaFormatSHA512256 == 0 {
		c.Violate("index-params", site, "digest flag missing from index (flags %x)", got.Index.FeatureFlags)
	}
}

func TestC02(t *testing.T) {
	fw.Main(t, &fw.Check{ID: "C02", Level: "exploration", Run: runC02})
}
