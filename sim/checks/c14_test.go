package checks

import (
	"bytes"
	"context"
	"fmt"
	"io"
	"net/http"
	"net/http/httptest"
	"net/url"
	"os"
	"path/filepath"
	"sync/atomic"
	"testing"
	"time"

	"verif/fw"
	"verif/simrt"

	"github.com/folbricht/desync"
)

// ---- C14: remote transports preserve data and report missing vs. failed truthfully ----

var c14Transient = []string{"reset", "500", "503", "short", "delay"}

func genScript(c *fw.Case, maxLen int) (script []respScript, f int, final string) {
	f = c.Draw(maxLen+1, "script.f")
	for i := 0; i < f; i++ {
		script = append(script, respScript{c14Transient[c.Draw(len(c14Transient), "script.kind")]})
	}
	final = []string{"ok", "ok", "ok", "404", "400", "403"}[c.Draw(6, "script.final")]
	script = append(script, respScript{final})
	return
}

func isMissing(err error) bool {
	switch err.(type) {
	case desync.ChunkMissing, desync.NoSuchObject:
		return true
	}
	return false
}

func runC14(c *fw.Case) {
	if desyncBin() != "" && c.ChanceAdded(1, procRate(100), "c14.proc") {
		runC14Proc(c)
		return
	}
	if c.ChanceAdded(1, 10, "c14.concurrent") {
		c14ConcurrentGets(c)
		return
	}
	mode := c.Draw(5, "c14.mode") // 0,1 chunk http; 2 index http; 3,4 casync protocol
	switch mode {
	case 0, 1:
		c14ChunkHTTP(c)
	case 2:
		c14IndexHTTP(c)
	default:
		c14Protocol(c)
	}
}

func c14ChunkHTTP(c *fw.Case) {
	unc := c.Bool("server.uncompressed") // client setting matches the server's -u
	upUnc := c.Bool("upstream.uncompressed")
	upSkip := c.Bool("upstream.skipverify")
	cliSkip := c.Bool("client.skipverify")
	skipWrite := c.Bool("server.skipverifywrite")
	retry := c.Draw(6, "retry")
	base := time.Duration(1+c.Draw(500, "base.ms")) * time.Millisecond
	op := c.Draw(3, "op") // get head put
	present := c.Bool("present")
	script, f, final := genScript(c, 7)
	dup := c.Chance(1, 4, "dup.put")
	r := c.Rand("chunk.data")
	data := make([]byte, 1+r.IntN(2048))
	compressible := r.IntN(2) == 0
	for i := range data {
		if compressible {
			data[i] = byte(i / 9)
		} else {
			data[i] = byte(r.IntN(256))
		}
	}
	chunk := desync.NewChunk(data)
	id := chunk.ID()
	ops := []string{"GET", "HEAD", "PUT"}
	// the upstream object may be damaged at rest (emptied / replaced by garbage): the server must not answer 200 for it
	damage := 0
	if op == 0 && present {
		damage = []int{0, 0, 0, 1, 2}[c.Draw(5, "upstream.damage")]
	}
	if damage != 0 {
		script, f, final = []respScript{{"ok"}}, 0, "ok"
	}
	c.Class(fmt.Sprintf("chunk %s unc=%v upUnc=%v upSkip=%v cliSkip=%v r=%d f=%d final=%s damage=%d", ops[op], unc, upUnc, upSkip, cliSkip, retry, f, final, damage))
	c.Note("chunk %s client/server uncompressed=%v upstream uncompressed=%v upstream skipverify=%v client skipverify=%v retry=%d base=%v present=%v script=%v dupPUT=%v", ops[op], unc, upUnc, upSkip, cliSkip, retry, base, present, script, dup)
	dir := filepath.Join(c.Dir(), "up")
	os.MkdirAll(dir, 0755)
	attemptsBudget := retry
	if attemptsBudget < 1 {
		attemptsBudget = 1
	}
	var (
		gotChunk *desync.Chunk
		gotHas   bool
		gotErr   error
		tr       *simTransport
		elapsed  time.Duration
		upHas    bool
		upData   []byte
	)
	sr := c.Sim(func(rt *simrt.RT) {
		rt.Go("client", func() {
			up, err := desync.NewLocalStore(dir, desync.StoreOptions{Uncompressed: upUnc, SkipVerify: upSkip})
			if err != nil {
				c.HarnessError("%v", err)
				return
			}
			if present && op != 2 {
				if err := up.StoreChunk(chunk); err != nil {
					c.HarnessError("%v", err)
					return
				}
				if damage != 0 {
					junk := []byte{}
					if damage == 2 {
						junk = make([]byte, 1+r.IntN(200))
						for i := range junk {
							junk[i] = byte(1 + r.IntN(255))
						}
					}
					os.WriteFile(chunkFile(dir, id, upUnc), junk, 0644)
					c.Fault("upstream-object-damaged")
				}
			}
			var conv desync.Converters
			if !unc {
				conv = desync.Converters{desync.Compressor{}}
			}
			h := desync.NewHTTPHandler(up, true, skipWrite, conv, "")
			u, _ := url.Parse("http://sim.invalid/store/")
			h = http.StripPrefix("/store", h)
			cl, err := desync.NewRemoteHTTPStore(u, desync.StoreOptions{Uncompressed: unc, SkipVerify: cliSkip, ErrorRetry: retry, ErrorRetryBaseInterval: base, Timeout: 10 * time.Second})
			if err != nil {
				c.HarnessError("%v", err)
				return
			}
			tr = &simTransport{h: h, script: script, delay: 30 * time.Second, dupPUT: dup}
			desync.VerifSetHTTPTransport(cl.RemoteHTTPBase, tr)
			t0 := time.Now()
			switch op {
			case 0:
				gotChunk, gotErr = cl.GetChunk(id)
			case 1:
				gotHas, gotErr = cl.HasChunk(id)
			case 2:
				gotErr = cl.StoreChunk(desync.NewChunk(data))
			}
			elapsed = time.Since(t0)
			verify, _ := desync.NewLocalStore(dir, desync.StoreOptions{Uncompressed: upUnc})
			if ch, err := verify.GetChunk(id); err == nil {
				upHas = true
				upData, _ = ch.Data()
			}
		})
	})
	if c.StdSimViolations(sr, "RemoteHTTP", true) || tr == nil {
		return
	}
	site := "chunk-" + ops[op]
	if damage != 0 {
		// only the verdict matters here: the server must not answer 200 without an object, a verifying client must
		// not get wrong data, and the damage is not "missing". (With verification disabled on every hop, garbage may
		// legitimately pass through unchanged.)
		if tr.lastStatus == 200 && tr.lastBodyLen == 0 {
			c.Violate("failure-reported-as-success", site, "upstream object damaged (kind %d, upstream skipverify=%v): the chunk server answered 200 with an empty body; client result err=%v", damage, upSkip, gotErr)
		} else if gotErr == nil && !cliSkip {
			if b, derr := gotChunk.Data(); derr != nil || !bytes.Equal(b, data) {
				c.Violate("data-altered", site, "upstream object damaged: a verifying client got no error and %d wrong bytes (%v)", len(b), derr)
			}
		} else if isMissing(gotErr) {
			c.Violate("failure-reported-as-missing", site, "upstream object damaged: reported missing: %v", gotErr)
		}
		if !c.Violated() {
			c.Outcome("ok")
		}
		return
	}
	attempts := len(tr.requests)
	wantAttempts := f + 1
	if wantAttempts > attemptsBudget {
		wantAttempts = attemptsBudget
	}
	for _, s := range script[:min(f, wantAttempts)] {
		c.Fault("http-" + s.kind)
	}
	if attempts > attemptsBudget {
		c.Violate("too-many-attempts", site, "error-retry=%d allows %d attempt(s), the server saw %d: %v", retry, attemptsBudget, attempts, tr.requests)
		return
	}
	if attempts != wantAttempts {
		c.Violate("attempt-count", site, "with %d transient failure(s) and error-retry=%d the server should see %d request(s), saw %d", f, retry, wantAttempts, attempts)
		return
	}
	// linear back-off: sum of i*base for every retried attempt (+ 10 s client time-out per delayed response)
	var wantSleep time.Duration
	for i := 1; i < attempts; i++ {
		wantSleep += time.Duration(i) * base
	}
	for _, s := range script[:attempts] {
		if s.kind == "delay" {
			wantSleep += 10 * time.Second
		}
	}
	if elapsed != wantSleep {
		c.Violate("backoff-schedule", site, "simulated time spent %v, documented linear back-off (+ time-outs) gives %v (attempts=%d base=%v)", elapsed, wantSleep, attempts, base)
		return
	}
	reached := f < attemptsBudget // the final response was delivered
	switch {
	case !reached:
		if gotErr == nil {
			c.Violate("failure-reported-as-success", site, "%d transient failures exhaust error-retry=%d, yet the call succeeded", f, retry)
		} else if isMissing(gotErr) {
			c.Violate("failure-reported-as-missing", site, "%d transient failures exhaust error-retry=%d, the caller was told the chunk is missing: %v", f, retry, gotErr)
		}
	case final == "400" || final == "403":
		if gotErr == nil {
			c.Violate("failure-reported-as-success", site, "the server answered %s, the call succeeded", final)
		} else if isMissing(gotErr) {
			c.Violate("failure-reported-as-missing", site, "the server answered %s, the caller was told the chunk is missing", final)
		}
	case final == "404":
		switch op {
		case 0:
			if !isMissing(gotErr) {
				c.Violate("missing-misreported", site, "the server answered 404, GetChunk returned (%v, %v)", gotChunk != nil, gotErr)
			}
		case 1:
			if gotErr != nil || gotHas {
				c.Violate("missing-misreported", site, "the server answered 404, HasChunk returned (%v, %v)", gotHas, gotErr)
			}
		case 2:
			if gotErr == nil {
				c.Violate("failure-reported-as-success", site, "the server answered 404 to a PUT, StoreChunk returned nil")
			}
		}
	default: // served by the real handler
		switch op {
		case 0:
			if present {
				if gotErr != nil {
					c.Violate("transient-failure-visible", site, "%d transient failure(s) < budget %d, chunk present, yet GetChunk failed: %v", f, attemptsBudget, gotErr)
				} else if b, err := gotChunk.Data(); err != nil || !bytes.Equal(b, data) {
					c.Violate("data-altered", site, "chunk arrived altered (%d bytes, err=%v)", len(b), err)
				}
			} else if !isMissing(gotErr) {
				c.Violate("missing-misreported", site, "chunk absent upstream, GetChunk returned (%v, %v)", gotChunk != nil, gotErr)
			}
		case 1:
			if gotErr != nil || gotHas != present {
				c.Violate("missing-misreported", site, "chunk present=%v, HasChunk returned (%v, %v)", present, gotHas, gotErr)
			}
		case 2:
			if gotErr != nil {
				c.Violate("transient-failure-visible", site, "%d transient failure(s) < budget %d, yet StoreChunk failed: %v", f, attemptsBudget, gotErr)
			} else if !upHas || !bytes.Equal(upData, data) {
				c.Violate("data-altered", site, "StoreChunk succeeded but the upstream store holds has=%v equal=%v", upHas, bytes.Equal(upData, data))
			}
		}
	}
	if !c.Violated() {
		c.Outcome("ok")
	}
}

func c14IndexHTTP(c *fw.Case) {
	chain := c.Bool("index.chain") // index server in front of another index server
	retry := c.Draw(5, "retry")
	op := c.Draw(3, "op") // get head put
	present := c.Bool("present")
	script, f, final := genScript(c, 5)
	if op == 1 {
		script, f, final = []respScript{{"ok"}}, 0, "ok"
	}
	sz := genSizes(c)
	nch := c.Draw(40, "index.chunks")
	r := c.Rand("index.seed")
	idx := desync.Index{Index: desync.FormatIndex{FeatureFlags: desync.CaFormatExcludeNoDump | desync.CaFormatSHA512256, ChunkSizeMin: sz.min, ChunkSizeAvg: sz.avg, ChunkSizeMax: sz.max}}
	var pos uint64
	for i := 0; i < nch; i++ {
		var id desync.ChunkID
		for j := range id {
			id[j] = byte(r.IntN(256))
		}
		s := 1 + uint64(r.IntN(int(sz.max)))
		idx.Chunks = append(idx.Chunks, desync.IndexChunk{ID: id, Start: pos, Size: s})
		pos += s
	}
	ops := []string{"GET", "HEAD", "PUT"}
	c.Class(fmt.Sprintf("index %s chain=%v r=%d f=%d final=%s present=%v", ops[op], chain, retry, f, final, present))
	c.Note("index %s chain=%v retry=%d present=%v chunks=%d script=%v", ops[op], chain, retry, present, nch, script)
	dir := filepath.Join(c.Dir(), "idx")
	os.MkdirAll(dir, 0755)
	budget := retry
	if budget < 1 {
		budget = 1
	}
	var (
		got    desync.Index
		gotErr error
		status int
		tr     *simTransport
		stored desync.Index
		sErr   error
	)
	sr := c.Sim(func(rt *simrt.RT) {
		rt.Go("client", func() {
			ls, err := desync.NewLocalIndexStore(dir)
			if err != nil {
				c.HarnessError("%v", err)
				return
			}
			if present && op != 2 {
				if err := ls.StoreIndex("blob.caibx", idx); err != nil {
					c.HarnessError("%v", err)
					return
				}
			}
			var h http.Handler = desync.NewHTTPIndexHandler(ls, true, "")
			if chain {
				u0, _ := url.Parse("http://inner.invalid/")
				inner, err := desync.NewRemoteHTTPIndexStore(u0, desync.StoreOptions{ErrorRetry: 0})
				if err != nil {
					c.HarnessError("%v", err)
					return
				}
				desync.VerifSetHTTPTransport(inner.RemoteHTTPBase, &simTransport{h: h})
				h = desync.NewHTTPIndexHandler(inner, true, "")
			}
			u, _ := url.Parse("http://sim.invalid/")
			cl, err := desync.NewRemoteHTTPIndexStore(u, desync.StoreOptions{ErrorRetry: retry, ErrorRetryBaseInterval: time.Millisecond, Timeout: 10 * time.Second})
			if err != nil {
				c.HarnessError("%v", err)
				return
			}
			tr = &simTransport{h: h, script: script, delay: 30 * time.Second}
			desync.VerifSetHTTPTransport(cl.RemoteHTTPBase, tr)
			switch op {
			case 0:
				got, gotErr = cl.GetIndex("blob.caibx")
			case 1: // desync has no client call for HEAD on an index: a plain request through the handler
				rec := httptest.NewRecorder()
				req := httptest.NewRequest("HEAD", "/blob.caibx", nil)
				h.ServeHTTP(rec, req)
				status = rec.Code
			case 2:
				gotErr = cl.StoreIndex("blob.caibx", idx)
			}
			stored, sErr = ls.GetIndex("blob.caibx")
		})
	})
	if c.StdSimViolations(sr, "RemoteHTTPIndex", true) || tr == nil {
		return
	}
	site := "index-" + ops[op]
	same := func(a, b desync.Index) bool {
		if a.Index.FeatureFlags != b.Index.FeatureFlags || a.Index.ChunkSizeMin != b.Index.ChunkSizeMin || a.Index.ChunkSizeAvg != b.Index.ChunkSizeAvg || a.Index.ChunkSizeMax != b.Index.ChunkSizeMax || len(a.Chunks) != len(b.Chunks) {
			return false
		}
		for i := range a.Chunks {
			if a.Chunks[i] != b.Chunks[i] {
				return false
			}
		}
		return true
	}
	if op == 1 {
		c.SubEval(1)
		if present && status != 200 {
			c.Violate("present-reported-missing", site, "HEAD on an existing index answered %d", status)
		} else if !present && status != 404 {
			c.Violate("missing-reported-present", site, "HEAD on a missing index answered %d", status)
		}
		if !c.Violated() {
			c.Outcome("ok")
		}
		return
	}
	for _, s := range script[:min(f, budget)] {
		c.Fault("http-" + s.kind)
	}
	if len(tr.requests) > budget {
		c.Violate("too-many-attempts", site, "error-retry=%d, server saw %d requests", retry, len(tr.requests))
		return
	}
	reached := f < budget
	switch {
	case !reached, final == "400", final == "403":
		if gotErr == nil {
			c.Violate("failure-reported-as-success", site, "transient failures=%d budget=%d final=%s, the call succeeded", f, budget, final)
		} else if isMissing(gotErr) {
			c.Violate("failure-reported-as-missing", site, "transient failures=%d budget=%d final=%s, reported missing: %v", f, budget, final, gotErr)
		}
	case final == "404":
		if op == 0 && !isMissing(gotErr) {
			c.Violate("missing-misreported", site, "server answered 404, GetIndex returned %v", gotErr)
		}
		if op == 2 && gotErr == nil {
			c.Violate("failure-reported-as-success", site, "server answered 404 to PUT, StoreIndex returned nil")
		}
	default:
		switch op {
		case 0:
			if present {
				if gotErr != nil {
					c.Violate("transient-failure-visible", site, "index present, %d transient failures < budget %d, GetIndex failed: %v", f, budget, gotErr)
				} else if !same(got, idx) {
					c.Violate("data-altered", site, "index arrived altered")
				}
			} else if !isMissing(gotErr) {
				c.Violate("missing-misreported", site, "index absent, GetIndex returned %v (chain=%v)", gotErr, chain)
			}
		case 2:
			if gotErr != nil {
				c.Violate("transient-failure-visible", site, "%d transient failures < budget %d, StoreIndex failed: %v", f, budget, gotErr)
			} else if sErr != nil || !same(stored, idx) {
				c.Violate("data-altered", site, "StoreIndex succeeded, upstream holds err=%v same=%v", sErr, sErr == nil && same(stored, idx))
			}
		}
	}
	if !c.Violated() {
		c.Outcome("ok")
	}
}

// cutWriter closes the connection after n bytes. fired is set before the partial write: the peer is inside the
// request whose answer is being cut (or the handshake), so it cannot see the flag earlier than the cut takes effect,
// and it can never see the effect without the flag.
type cutWriter struct {
	w     io.WriteCloser
	left  int
	fired *atomic.Bool
}

func (cw *cutWriter) Write(p []byte) (int, error) {
	if cw.left >= 0 && len(p) > cw.left {
		cw.fired.Store(true)
		n, _ := cw.w.Write(p[:cw.left])
		cw.w.Close()
		cw.left = 0
		return n, io.ErrClosedPipe
	}
	if cw.left >= 0 {
		cw.left -= len(p)
	}
	return cw.w.Write(p)
}

type oneByteReader struct{ r io.Reader }

func (o oneByteReader) Read(p []byte) (int, error) {
	if len(p) > 1 {
		p = p[:1]
	}
	return o.r.Read(p)
}

func c14Protocol(c *fw.Case) {
	nids := c.Range(2, 5, "ids")
	r := c.Rand("proto.seed")
	st := newSimStore(c, "upstream")
	var ids []desync.ChunkID
	var datas [][]byte
	content := make([]int, nids) // 0 present, 1 missing, 2 upstream failure
	for i := 0; i < nids; i++ {
		b := make([]byte, 1+r.IntN(3000))
		for j := range b {
			b[j] = byte(r.IntN(256))
		}
		datas = append(datas, b)
		id := desync.ChunkID(desync.Digest.Sum(b))
		ids = append(ids, id)
		content[i] = []int{0, 0, 0, 1, 2}[c.Draw(5, "content")]
		if content[i] != 1 {
			st.m[id] = b
		}
		if content[i] == 2 {
			idc := id
			st.faults = append(st.faults, storeFault{op: "get", id: &idc, kind: "error"})
		}
	}
	nreq := c.Range(1, 8, "requests")
	frag := c.Bool("fragment")
	cutAt := -1
	if c.Chance(1, 3, "cut") {
		cutAt = c.Draw(6000, "cut.at")
	}
	c.Class(fmt.Sprintf("protocol ids=%d req=%d frag=%v cut=%v", nids, nreq, frag, cutAt >= 0))
	c.Note("protocol content=%v requests=%d fragment=%v cutAt=%d", content, nreq, frag, cutAt)
	cr, sw := io.Pipe()
	sr2, cw := io.Pipe()
	var firedFlag atomic.Bool
	var serverW io.Writer = sw
	if cutAt >= 0 {
		serverW = &cutWriter{w: sw, left: cutAt, fired: &firedFlag}
	}
	var clientR io.Reader = cr
	if frag {
		clientR = oneByteReader{cr}
		c.Fault("pipe-fragmentation")
	}
	srv := desync.NewProtocolServer(sr2, serverW, st)
	done := make(chan struct{})
	go func() {
		srv.Serve(context.Background())
		sw.Close()
		sr2.Close()
		close(done)
	}()
	defer func() { cr.Close(); cw.Close(); sw.Close(); sr2.Close(); <-done }()
	p := desync.NewProtocol(clientR, cw)
	if _, err := p.Initialize(desync.CaProtocolPullChunks); err != nil {
		if firedFlag.Load() {
			c.Fault("pipe-closed-mid-message")
			c.Outcome("handshake-cut")
			return
		}
		c.Violate("handshake-failed", "Protocol.Initialize", "%v", err)
		return
	}
	dead := false
	for i := 0; i < nreq; i++ {
		k := c.Draw(nids, "req.id")
		var ch *desync.Chunk
		var err error
		if catch(c, "Protocol.RequestChunk", func() { ch, err = p.RequestChunk(ids[k]) }) {
			return
		}
		c.SubEval(1)
		fired := firedFlag.Load()
		if fired && !dead {
			c.Fault("pipe-closed-mid-message")
		}
		switch {
		case err == nil:
			b, derr := ch.Data()
			if derr != nil || !bytes.Equal(b, datas[k]) || content[k] != 0 {
				c.Violate("data-altered", "protocol", "request %d (content %d) returned a chunk that is not the stored data (err=%v)", i, content[k], derr)
				return
			}
		case isMissing(err):
			if content[k] != 1 {
				c.Violate("failure-reported-as-missing", "protocol", "request %d for a chunk with content class %d (0 present, 2 upstream failure; session dead=%v cut=%v) was answered 'missing'", i, content[k], dead, fired)
				return
			}
			dead = true // the server ends the session after a missing chunk
		default:
			if content[k] == 0 && !dead && !fired {
				c.Violate("present-chunk-failed", "protocol", "request %d for a present chunk failed on a healthy session: %v", i, err)
				return
			}
			if content[k] == 1 && !dead && !fired {
				c.Violate("missing-reported-as-error", "protocol", "request %d for a missing chunk failed instead of reporting missing: %v", i, err)
				return
			}
			dead = true
		}
	}
	// a chunk server in front of the session (what `desync chunk-server -s ssh://...` is): the answer to one request
	// is still being written while the session already serves the next one. The overlap is played out in the one
	// order that matters: request B runs entirely inside the first Write of the response to request A, at which point
	// the session is free again (RemoteSSH has put it back into its pool).
	var present []int
	for k := range ids {
		if content[k] == 0 {
			present = append(present, k)
		}
	}
	if !dead && len(present) > 0 && c.ChanceAdded(1, 2, "proto.overlap") {
		h := desync.NewHTTPHandler(sessionStore{p}, false, false, desync.Converters{desync.Compressor{}}, "")
		a := present[c.Draw(len(present), "overlap.a")]
		b := present[c.Draw(len(present), "overlap.b")]
		get := func(k int, w http.ResponseWriter) {
			sid := ids[k].String()
			h.ServeHTTP(w, httptest.NewRequest("GET", "/"+sid[:4]+"/"+sid+".cacnk", nil))
		}
		wb := &nestingWriter{header: http.Header{}}
		wa := &nestingWriter{header: http.Header{}, inside: func() { get(b, wb) }}
		if catch(c, "HTTPHandler over a protocol session", func() { get(a, wa) }) {
			return
		}
		c.SubEval(1)
		for _, x := range []struct {
			k int
			w *nestingWriter
		}{{a, wa}, {b, wb}} {
			if x.w.status != 200 {
				if !firedFlag.Load() {
					c.Violate("present-chunk-failed", "protocol/overlap", "GET of a present chunk through a chunk server in front of a healthy session: status %d", x.w.status)
					return
				}
				continue
			}
			data, derr := desync.Decompress(nil, x.w.body)
			if derr != nil || !bytes.Equal(data, datas[x.k]) {
				c.Violate("data-altered", "protocol/overlap", "two overlapping GETs (chunks %d and %d) through a chunk server in front of one session: the 200 response for chunk %d is not that chunk (%v)", a, b, x.k, derr)
				return
			}
		}
	}
	c.NonTrivial()
	c.Outcome("ok")
}

// sessionStore is a Store on one protocol session; callers are sequential.
type sessionStore struct{ p *desync.Protocol }

func (s sessionStore) GetChunk(id desync.ChunkID) (*desync.Chunk, error) { return s.p.RequestChunk(id) }
func (s sessionStore) HasChunk(id desync.ChunkID) (bool, error) {
	_, err := s.p.RequestChunk(id)
	return err == nil, err
}
func (s sessionStore) Close() error   { return nil }
func (s sessionStore) String() string { return "protocol-session" }

// nestingWriter is a ResponseWriter that runs `inside` after it has been handed the first slice and before it takes the
// bytes out of it, as a connection does that is still busy with the previous packet.
type nestingWriter struct {
	header http.Header
	status int
	body   []byte
	inside func()
}

func (w *nestingWriter) Header() http.Header { return w.header }
func (w *nestingWriter) WriteHeader(code int) {
	if w.status == 0 {
		w.status = code
	}
}
func (w *nestingWriter) Write(p []byte) (int, error) {
	if w.status == 0 {
		w.status = 200
	}
	if f := w.inside; f != nil {
		w.inside = nil
		f()
	}
	w.body = append(w.body, p...)
	return len(p), nil
}

func TestC14(t *testing.T) {
	fw.Main(t, &fw.Check{ID: "C14", Level: "exploration", Run: runC14})
}

// slowWriter is an http.ResponseWriter whose Write keeps the caller's slice for a while before taking the bytes, as a
// connection to a slow client does; the while is a scheduling point.
type slowWriter struct {
	rt     *simrt.RT
	header http.Header
	status int
	body   []byte
}

func (w *slowWriter) Header() http.Header { return w.header }
func (w *slowWriter) WriteHeader(code int) {
	if w.status == 0 {
		w.status = code
	}
}
func (w *slowWriter) Write(p []byte) (int, error) {
	if w.status == 0 {
		w.status = 200
	}
	// the first part goes out, the client stalls, the rest follows
	h := len(p) / 2
	w.body = append(w.body, p[:h]...)
	w.rt.Yield("response-write")
	w.body = append(w.body, p[h:]...)
	return len(p), nil
}

// c14ConcurrentGets: several clients fetch different indexes and chunks from one index / chunk server at the same time;
// every response is the object that was asked for.
func c14ConcurrentGets(c *fw.Case) {
	dir := filepath.Join(c.Dir(), "srv")
	os.MkdirAll(dir, 0755)
	r := c.Rand("conc.seed")
	nobj := c.Range(2, 4, "conc.objects")
	var idxBytes [][]byte
	var chunkData [][]byte
	var chunkIDs []desync.ChunkID
	ls, _ := desync.NewLocalStore(dir, desync.StoreOptions{})
	for i := 0; i < nobj; i++ {
		idx := desync.Index{Index: desync.FormatIndex{FeatureFlags: desync.CaFormatExcludeNoDump | desync.CaFormatSHA512256, ChunkSizeMin: 64, ChunkSizeAvg: 256, ChunkSizeMax: 1024}}
		var pos uint64
		n := 1 + r.IntN(20)
		if c.Bool("conc.samelen") {
			n = 8 // equal lengths: a mixed-up response still parses
		}
		for j := 0; j < n; j++ {
			var id desync.ChunkID
			for k := range id {
				id[k] = byte(r.IntN(256))
			}
			sz := uint64(1 + r.IntN(1024))
			idx.Chunks = append(idx.Chunks, desync.IndexChunk{ID: id, Start: pos, Size: sz})
			pos += sz
		}
		var buf bytes.Buffer
		idx.WriteTo(&buf)
		idxBytes = append(idxBytes, buf.Bytes())
		os.WriteFile(filepath.Join(dir, fmt.Sprintf("i%d.caibx", i)), buf.Bytes(), 0644)
		b := make([]byte, 100+r.IntN(1500))
		for k := range b {
			b[k] = byte(r.IntN(256))
		}
		ch := desync.NewChunk(b)
		ls.StoreChunk(ch)
		chunkData = append(chunkData, b)
		chunkIDs = append(chunkIDs, ch.ID())
	}
	is, _ := desync.NewLocalIndexStore(dir)
	ih := desync.NewHTTPIndexHandler(is, false, "")
	unc := c.Bool("conc.uncompressed")
	var conv desync.Converters
	if !unc {
		conv = desync.Converters{desync.Compressor{}}
	}
	ch := desync.NewHTTPHandler(ls, false, false, conv, "")
	nclients := c.Range(2, 4, "conc.clients")
	type req struct {
		index bool
		k     int
	}
	plans := make([][]req, nclients)
	for i := range plans {
		for j, n := 0, c.Range(1, 4, "conc.requests"); j < n; j++ {
			plans[i] = append(plans[i], req{index: c.Chance(2, 3, "conc.index"), k: c.Draw(nobj, "conc.k")})
		}
	}
	c.Class(fmt.Sprintf("concurrent GETs objects=%d clients=%d unc=%v", nobj, nclients, unc))
	c.NonTrivial()
	sr := c.Sim(func(rt *simrt.RT) {
		rt.MaxSteps = 20000
		for i := range plans {
			pl := plans[i]
			rt.Go(fmt.Sprintf("client%d", i), func() {
				for _, q := range pl {
					if c.Violated() {
						return
					}
					w := &slowWriter{rt: rt, header: http.Header{}}
					if q.index {
						ih.ServeHTTP(w, httptest.NewRequest("GET", fmt.Sprintf("/i%d.caibx", q.k), nil))
						c.SubEval(1)
						if w.status != 200 || !bytes.Equal(w.body, idxBytes[q.k]) {
							got, perr := desync.IndexFromReader(bytes.NewReader(w.body))
							c.Violate("data-altered", "index-GET/concurrent", "GET i%d.caibx while other requests are being answered: status %d, %d bytes that are not the stored index (%d bytes; parses: %v, %d chunks)", q.k, w.status, len(w.body), len(idxBytes[q.k]), perr == nil, len(got.Chunks))
							return
						}
						continue
					}
					s := chunkIDs[q.k].String()
					path := "/" + s[:4] + "/" + s
					if !unc {
						path += ".cacnk"
					}
					ch.ServeHTTP(w, httptest.NewRequest("GET", path, nil))
					c.SubEval(1)
					b := w.body
					var derr error
					if !unc {
						b, derr = desync.Decompress(nil, w.body)
					}
					if w.status != 200 || derr != nil || !bytes.Equal(b, chunkData[q.k]) {
						c.Violate("data-altered", "chunk-GET/concurrent", "GET of chunk %d while other requests are being answered: status %d, body is not the chunk (%v)", q.k, w.status, derr)
						return
					}
				}
			})
		}
	})
	if c.StdSimViolations(sr, "HTTP handlers/concurrent", true) {
		return
	}
	if !c.Violated() {
		c.Outcome("ok")
	}
}
