package checks

import (
	"bytes"
	"context"
	"crypto/sha512"
	"encoding/hex"
	"errors"
	"fmt"
	"os"
	"path/filepath"
	"regexp"
	"strings"
	"syscall"
	"testing"
	"time"

	"verif/fw"
	"verif/simrt"

	"github.com/folbricht/desync"
	"github.com/klauspost/compress/zstd"
)

// ---- C08 (part A): process death never exposes a partial chunk in a local store ----

var chunkNameRe = regexp.MustCompile(`^[0-9a-f]{64}(\.cacnk)?$`)

var c08Decoder, _ = zstd.NewReader(nil, zstd.WithDecoderMaxMemory(64<<20))

// validateStoreDir is independent of desync: every file under a chunk name must decode and hash to its name.
func validateStoreDir(dir string) (tmpFiles int, problem string) {
	filepath.Walk(dir, func(p string, info os.FileInfo, err error) error {
		if err != nil || info.IsDir() || problem != "" {
			return nil
		}
		base := filepath.Base(p)
		switch {
		case chunkNameRe.MatchString(base):
			if filepath.Base(filepath.Dir(p)) != base[:4] {
				problem = fmt.Sprintf("chunk file %s is in the wrong directory", p)
				return nil
			}
			b, err := os.ReadFile(p)
			if err != nil {
				problem = err.Error()
				return nil
			}
			if strings.HasSuffix(base, ".cacnk") {
				b, err = c08Decoder.DecodeAll(b, nil)
				if err != nil {
					problem = fmt.Sprintf("file %s (%d bytes) under a chunk name is not a complete zstd frame: %v", base, info.Size(), err)
					return nil
				}
			}
			sum := sha512.Sum512_256(b)
			if hex.EncodeToString(sum[:]) != base[:64] {
				problem = fmt.Sprintf("file %s (%d bytes) under a chunk name does not hash to its name", base, info.Size())
			}
		case strings.HasPrefix(base, ".tmp-cacnk"):
			tmpFiles++
		default:
			problem = fmt.Sprintf("unexpected file %s in the store", p)
		}
		return nil
	})
	return
}

type fileState struct{ size int64 }

func scanInodes(dir string) map[uint64]fileState {
	m := map[uint64]fileState{}
	filepath.Walk(dir, func(p string, info os.FileInfo, err error) error {
		if err == nil && info.Mode().IsRegular() {
			if st, ok := info.Sys().(*syscall.Stat_t); ok {
				m[st.Ino] = fileState{info.Size()}
			}
		}
		return nil
	})
	return m
}

func runC08(c *fw.Case) {
	if desyncBin() != "" && c.ChanceAdded(1, procRate(4), "c08.extract") {
		if c.Bool("c08.traced") {
			runC08Traced(c)
			return
		}
		runC08Extract(c)
		return
	}
	sz := asmSizes[c.Draw(4, "c08.sizes")]
	var blob []byte
	if c.Bool("c08.dups") {
		blob = genDupBlob(c, sz)
	} else {
		blob = genBlob(c, sz, 12*int(sz.max))
	}
	if len(blob) > 12*int(sz.max) {
		blob = blob[:12*int(sz.max)]
	}
	idx := mkIndex(blob, sz)
	if len(idx.Chunks) == 0 {
		c.Outcome("empty")
		return
	}
	unc := c.Bool("c08.uncompressed")
	n := c.Range(1, 4, "c08.n")
	workload := c.Draw(3, "c08.workload")
	names := []string{"ChopFile", "Copy", "concurrent-StoreChunk"}
	c.Class(fmt.Sprintf("%s n=%d unc=%v chunks<=%d", names[workload], n, unc, (len(idx.Chunks)+3)/4*4))
	c.Note("%s sizes=%v blob(%s) chunks=%d n=%d uncompressed=%v", names[workload], sz, describeBlob(blob), len(idx.Chunks), n, unc)
	file := filepath.Join(c.Dir(), "blob")
	os.WriteFile(file, blob, 0644)
	dir := filepath.Join(c.Dir(), "store")
	all := map[desync.ChunkID]struct{}{}
	for _, ch := range idx.Chunks {
		all[ch.ID] = struct{}{}
	}
	run := func(rt *simrt.RT) error {
		ls, err := desync.NewLocalStore(dir, desync.StoreOptions{Uncompressed: unc})
		if err != nil {
			return err
		}
		switch workload {
		case 0:
			return desync.ChopFile(context.Background(), file, idx.Chunks, ls, n, desync.NullProgressBar{})
		case 1:
			src := newSimStore(c, "src")
			src.fill(blob, idx.Chunks)
			src.rt = rt
			var ids []desync.ChunkID
			for _, ch := range idx.Chunks {
				ids = append(ids, ch.ID)
			}
			return desync.Copy(context.Background(), ids, src, ls, n, desync.NullProgressBar{})
		default:
			// n+1 writers store the same few chunks at the same time
			errs := make(chan error, n+1)
			for w := 0; w <= n; w++ {
				rt.Go(fmt.Sprintf("writer%d", w), func() {
					for _, ch := range idx.Chunks[:min(3, len(idx.Chunks))] {
						if err := ls.StoreChunk(desync.NewChunk(blob[ch.Start : ch.Start+ch.Size])); err != nil {
							errs <- err
							return
						}
					}
					errs <- nil
				})
			}
			var first error
			for w := 0; w <= n; w++ {
				if e := <-errs; e != nil && first == nil {
					first = e
				}
				rt.Yield("collect")
			}
			return first
		}
	}
	// run A: record the schedule and count the file-system points
	os.RemoveAll(dir)
	os.MkdirAll(dir, 0755)
	p0 := c.T.Len()
	var errA error
	srA := c.Sim(func(rt *simrt.RT) {
		rt.YieldIO = true
		rt.MaxSteps = 300000
		rt.Go("main", func() { errA = run(rt) })
	})
	if c.StdSimViolations(srA, names[workload], false) {
		return
	}
	if errA != nil {
		c.Violate("unexpected-error", names[workload], "fault-free run failed: %v", errA)
		return
	}
	if _, why := validateStoreDir(dir); why != "" {
		c.Violate("invalid-store-after-success", names[workload], "%s", why)
		return
	}
	sched := append([]int(nil), c.T.Rec[p0:]...)
	S := srA.RT.IOCount
	var ks []int
	if S <= 120 {
		for k := 1; k <= S; k++ {
			ks = append(ks, k)
		}
	} else {
		for i := 0; i < 80; i++ {
			ks = append(ks, 1+c.Draw(S, "crash.at"))
		}
	}
	tr := c.Rand("torn.seed")
	for _, k := range ks {
		for variant := 0; variant < 2; variant++ { // 0: death at the point, 1: death during the write that just happened (torn)
			os.RemoveAll(dir)
			os.MkdirAll(dir, 0755)
			torn := ""
			prev := map[uint64]fileState{}
			sr := c.SimWith(simrt.ReplayTape(sched), func(rt *simrt.RT) {
				rt.YieldIO = true
				rt.MaxSteps = 300000
				rt.IOHook = func(label string, n int) {
					if n < k {
						if variant == 1 && n == k-1 {
							prev = scanInodes(dir)
						}
						return
					}
					if n == k {
						if variant == 1 {
							// a file that was created or grew during the last step was being written when the process died
							filepath.Walk(dir, func(p string, info os.FileInfo, err error) error {
								if err != nil || !info.Mode().IsRegular() || torn != "" || info.Size() == 0 {
									return nil
								}
								st := info.Sys().(*syscall.Stat_t)
								if old, ok := prev[st.Ino]; !ok || old.size < info.Size() {
									lo := int64(0)
									if ok {
										lo = old.size
									}
									cut := lo + int64(tr.IntN(int(info.Size()-lo)))
									os.Truncate(p, cut)
									torn = fmt.Sprintf("%s cut to %d of %d bytes", filepath.Base(p), cut, info.Size())
								}
								return nil
							})
						}
						rt.Freeze("process death")
					}
				}
				rt.Go("main", func() { run(rt) })
			})
			if variant == 1 && torn == "" {
				continue // nothing was being written at that point
			}
			c.SubEval(1)
			if len(sr.Panics) > 0 {
				c.Violate("panic", sr.Panics[0].Site, "%s", sr.Panics[0].Value)
				return
			}
			if variant == 0 {
				c.Fault("process-death")
			} else {
				c.Fault("torn-write")
			}
			tmps, why := validateStoreDir(dir)
			if why != "" {
				c.Violate("partial-chunk-visible", names[workload], "death at file-system point %d of %d (%s): %s", k, S, map[int]string{0: "clean", 1: "torn: " + torn}[variant], why)
				return
			}
			// prune removes what the dead process left behind, and only that
			ls, _ := desync.NewLocalStore(dir, desync.StoreOptions{Uncompressed: unc})
			before := scanInodes(dir)
			if err := ls.Prune(context.Background(), all); err != nil {
				c.Violate("prune-failed", "LocalStore.Prune", "after death at point %d: %v", k, err)
				return
			}
			tmps2, why := validateStoreDir(dir)
			if why != "" || tmps2 != 0 {
				c.Violate("prune-left-temp-files", "LocalStore.Prune", "after death at point %d: %d temporary files before, %d after prune; %s", k, tmps, tmps2, why)
				return
			}
			if after := scanInodes(dir); len(after) != len(before)-tmps {
				c.Violate("prune-removed-chunks", "LocalStore.Prune", "prune with every chunk referenced removed %d files, %d were temporary", len(before)-len(after), tmps)
				return
			}
			// a restart completes the work
			if variant == 0 && k%7 == 0 {
				var err error
				sr := c.Sim(func(rt *simrt.RT) {
					rt.MaxSteps = 300000
					rt.Go("main", func() { err = run(rt) })
				})
				if c.StdSimViolations(sr, names[workload], false) {
					return
				}
				if err != nil {
					c.Violate("restart-failed", names[workload], "re-run after death at point %d failed: %v", k, err)
					return
				}
				if _, why := validateStoreDir(dir); why != "" {
					c.Violate("invalid-store-after-restart", names[workload], "%s", why)
					return
				}
			}
		}
	}
	c.Key(S)
	c.Outcome("ok")
}

func TestC08(t *testing.T) {
	fw.Main(t, &fw.Check{ID: "C08", Level: "fault_enumeration", Run: runC08})
}

// ---- C08 (part B): a killed extract leaves the destination alone / can be re-run in place ----

func runC08Extract(c *fw.Case) {
	c.Probe("process-level-case (real desync binary)")
	pb, err := newProcBlob(c, false)
	if err != nil {
		c.HarnessError("%v", err)
		return
	}
	pb.g.close()
	inPlace := c.Bool("extract.inplace")
	n := []string{"1", "1", "4"}[c.Draw(3, "extract.n")]
	out := filepath.Join(c.Dir(), "out")
	var prior []byte
	switch c.Draw(3, "extract.prior") {
	case 1:
		prior = editBlob(c, pb.blob, "prior")
	case 2:
		prior = []byte("previous content of the destination\n")
	}
	reset := func() {
		os.Remove(out)
		if prior != nil {
			os.WriteFile(out, prior, 0644)
		}
		// temp files of killed runs
		if ents, err := os.ReadDir(c.Dir()); err == nil {
			for _, e := range ents {
				if strings.HasPrefix(e.Name(), ".out") || strings.HasPrefix(e.Name(), ".tmp") {
					os.Remove(filepath.Join(c.Dir(), e.Name()))
				}
			}
		}
	}
	serve := func() *gateServer {
		g, err := newGateServer(false)
		if err != nil {
			c.HarnessError("%v", err)
			return nil
		}
		for _, ch := range pb.idx.Chunks {
			g.addChunk(pb.blob[ch.Start : ch.Start+ch.Size])
		}
		return g
	}
	// optionally a seed (an edited copy of the blob with its own index), as `--seed seed.caibx`
	useSeed := c.Bool("extract.seed")
	seedIndex := filepath.Join(c.Dir(), "seed.caibx")
	if useSeed {
		sb := editBlob(c, pb.blob, "seedblob")
		os.WriteFile(filepath.Join(c.Dir(), "seed"), sb, 0644)
		si := mkIndex(sb, sizes{256, 1024, 4096})
		f, err := os.Create(seedIndex)
		if err != nil {
			c.HarnessError("%v", err)
			return
		}
		si.WriteTo(f)
		f.Close()
	}
	args := func(g *gateServer) []string {
		a := []string{"extract", "-n", n, "-s", g.url()}
		if inPlace {
			a = append(a, "--in-place")
		}
		if useSeed {
			a = append(a, "--seed", seedIndex)
		}
		return append(a, pb.index, out)
	}
	c.Class(fmt.Sprintf("extract-kill inplace=%v n=%s prior=%v seed=%v", inPlace, n, prior != nil, useSeed))
	c.Note("real `desync extract` inplace=%v n=%s chunks=%d prior=%d bytes", inPlace, n, len(pb.idx.Chunks), len(prior))
	// full run: counts the requests and must reproduce the blob
	reset()
	g := serve()
	if g == nil {
		return
	}
	res, err := runPlain(args(g)...)
	total := len(g.requests("GET"))
	g.close()
	if err != nil {
		c.HarnessError("%v", err)
		return
	}
	got, _ := os.ReadFile(out)
	if res.exit != 0 || !bytes.Equal(got, pb.blob) {
		c.Violate("extract-failed", "desync extract", "plain run: exit %d, output equal=%v: %s", res.exit, bytes.Equal(got, pb.blob), res.output)
		return
	}
	if total == 0 {
		c.Outcome("ok") // everything came from the seed: no request to hold
		return
	}
	for k := 1; k <= total; k++ {
		reset()
		g := serve()
		if g == nil {
			return
		}
		g.holdKind, g.holdAt = "GET", k
		res, err := runGated(g, syscall.SIGKILL, args(g)...)
		served := g.requests("GET")
		g.close()
		if errors.Is(err, errProcTimeout) {
			c.Probe("procsim-timeout-case-dropped")
			c.Outcome("dropped")
			return
		}
		if err != nil {
			c.HarnessError("kill at request %d: %v", k, err)
			return
		}
		if !res.heldSeen {
			continue // fewer requests this time (in-place reuse)
		}
		c.SubEval(1)
		c.Fault("sigkill-during-request")
		if !inPlace {
			now, rerr := os.ReadFile(out)
			if prior == nil && rerr == nil {
				c.Violate("destination-touched", "desync extract", "killed while request %d of %d was in flight: the destination did not exist before and now has %d bytes", k, total, len(now))
				return
			}
			if prior != nil && !bytes.Equal(now, prior) {
				c.Violate("destination-touched", "desync extract", "killed while request %d of %d was in flight: the destination changed (%d -> %d bytes)", k, total, len(prior), len(now))
				return
			}
			continue
		}
		// in place: a re-run completes with correct output and does not fetch again what was already written. What was
		// written is read off the file itself: an id is settled when every range the index gives it already holds its
		// bytes (with several workers the dead run leaves such ranges behind the first missing one as well)
		settled := map[string]bool{}
		if now, rerr := os.ReadFile(out); rerr == nil {
			bad := map[string]bool{}
			for _, ch := range pb.idx.Chunks {
				s := ch.ID.String()
				path := "/" + s[:4] + "/" + s + ".cacnk"
				if int(ch.Start+ch.Size) <= len(now) && bytes.Equal(now[ch.Start:ch.Start+ch.Size], pb.blob[ch.Start:ch.Start+ch.Size]) {
					settled[path] = true
				} else {
					bad[path] = true
				}
			}
			for p := range bad {
				delete(settled, p)
			}
			// with one worker the re-run goes through the index in order and can copy a chunk from an earlier range
			// of the target it has already passed: an id is settled as well when one of its ranges holds its bytes and
			// every range that does not lies behind it
			if n == "1" {
				first := map[string]int{}
				for i, ch := range pb.idx.Chunks {
					s := ch.ID.String()
					path := "/" + s[:4] + "/" + s + ".cacnk"
					ok := int(ch.Start+ch.Size) <= len(now) && bytes.Equal(now[ch.Start:ch.Start+ch.Size], pb.blob[ch.Start:ch.Start+ch.Size])
					if _, seen := first[path]; !seen {
						if ok {
							first[path] = i
						} else {
							first[path] = -1 // its first range is missing: it has to be fetched
						}
					}
				}
				for p, i := range first {
					if i >= 0 && bad[p] {
						settled[p] = true
					}
				}
			}
		}
		g2 := serve()
		if g2 == nil {
			return
		}
		res2, err := runPlain(args(g2)...)
		again := g2.requests("GET")
		g2.close()
		if err != nil {
			c.HarnessError("%v", err)
			return
		}
		got, _ := os.ReadFile(out)
		if res2.exit != 0 || !bytes.Equal(got, pb.blob) {
			c.Violate("rerun-failed", "desync extract --in-place", "after a kill at request %d of %d the re-run exits %d and output equal=%v: %s", k, total, res2.exit, bytes.Equal(got, pb.blob), res2.output)
			return
		}
		_ = served
		for _, p := range again {
			if settled[p] {
				c.Violate("refetched-written-chunk", "desync extract --in-place", "after a kill at request %d of %d (n=%s) the re-run fetched %s again although every range of that chunk already held its bytes", k, total, n, p)
				return
			}
		}
	}
	c.Outcome("ok")
}

// ---- C08 (part C): the real binary dies in front of every system call that changes the file system ----

func runC08Traced(c *fw.Case) {
	c.Probe("process-level-case (real desync binary, ptrace)")
	sz := sizes{64, 256, 1024}
	blob := genBlob(c, sz, c.Range(3, 14, "traced.chunks")*int(sz.avg))
	idx := mkIndex(blob, sz)
	if len(idx.Chunks) == 0 {
		c.Outcome("empty")
		return
	}
	dir := c.Dir()
	src := filepath.Join(dir, "src.store")
	if err := fillLocalStore(src, blob, idx.Chunks); err != nil {
		c.HarnessError("%v", err)
		return
	}
	indexFile := filepath.Join(dir, "blob.caibx")
	writeIndexFile(indexFile, idx)
	out := filepath.Join(dir, "out")
	target := filepath.Join(dir, "target.store")
	blobFile := filepath.Join(dir, "blob")
	os.WriteFile(blobFile, blob, 0644)
	n := []string{"1", "1", "3"}[c.Draw(3, "traced.n")]
	kind := c.Draw(5, "traced.kind")
	names := []string{"extract", "extract --in-place", "chop", "cache", "make"}
	var prior []byte
	switch c.Draw(3, "traced.prior") {
	case 1:
		prior = editBlob(c, blob, "prior")
	case 2:
		prior = []byte("previous content of the destination\n")
	}
	var args []string
	switch kind {
	case 0:
		args = []string{"extract", "-n", n, "-s", src, indexFile, out}
	case 1:
		args = []string{"extract", "--in-place", "-n", n, "-s", src, indexFile, out}
	case 2:
		args = []string{"chop", "-n", n, "-s", target, indexFile, blobFile}
	case 3:
		args = []string{"cache", "-n", n, "-s", src, "-c", target, indexFile}
	case 4:
		args = []string{"make", "-n", n, "-m", "1:4:16", "-s", target, filepath.Join(dir, "made.caibx"), blobFile}
	}
	if kind == 0 && c.Bool("traced.stats") {
		args = append([]string{"extract", "--print-stats"}, args[1:]...)
	}
	reset := func() {
		os.RemoveAll(target)
		os.MkdirAll(target, 0755)
		os.Remove(filepath.Join(dir, "made.caibx"))
		if ents, err := os.ReadDir(dir); err == nil {
			for _, e := range ents {
				if strings.HasPrefix(e.Name(), ".out") || strings.HasPrefix(e.Name(), ".tmp") || strings.HasPrefix(e.Name(), ".made") {
					os.Remove(filepath.Join(dir, e.Name()))
				}
			}
		}
		os.Remove(out)
		if prior != nil && kind <= 1 {
			os.WriteFile(out, prior, 0644)
		}
	}
	c.Class(fmt.Sprintf("traced %s n=%s prior=%v", names[kind], n, prior != nil))
	c.Note("real `desync %s`, killed in front of the k-th file-system call", strings.Join(args, " "))
	c.NonTrivial()
	reset()
	r0, err := runTraced(0, dir, 2*time.Minute, args...)
	if err != nil {
		c.HarnessError("%v", err)
		return
	}
	if r0.timeout {
		c.Probe("procsim-timeout-case-dropped")
		return
	}
	if r0.exit != 0 || r0.signaled {
		c.Violate("unexpected-error", "desync "+names[kind], "fault-free run under the tracer: exit %d signaled=%v", r0.exit, r0.signaled)
		return
	}
	S := len(r0.points)
	ks := map[int]bool{}
	if S <= 50 {
		for k := 1; k <= S; k++ {
			ks[k] = true
		}
	} else {
		for k := 1; k <= 4; k++ {
			ks[k] = true
		}
		for k := S - 11; k <= S; k++ {
			ks[k] = true // the commit steps are at the end
		}
		for i := 0; i < 30; i++ {
			ks[1+c.Draw(S, "traced.k")] = true
		}
	}
	for k := 1; k <= S; k++ {
		if !ks[k] {
			continue
		}
		reset()
		r, err := runTraced(k, dir, 2*time.Minute, args...)
		if err != nil {
			c.HarnessError("%v", err)
			return
		}
		if r.timeout {
			c.Probe("procsim-timeout-case-dropped")
			return // a child that hangs once will hang again: do not spend the case limit on it
		}
		if !r.signaled {
			continue // a different interleaving of the threads ended before its k-th call
		}
		c.SubEval(1)
		c.Fault("sigkill-before-syscall")
		where := fmt.Sprintf("death in front of file-system call %d of %d (%s)", k, S, r.killedAt)
		switch kind {
		case 0:
			got, rerr := os.ReadFile(out)
			switch {
			case rerr == nil && bytes.Equal(got, blob):
				// died after the destination was replaced
			case prior == nil && os.IsNotExist(rerr):
			case prior != nil && rerr == nil && bytes.Equal(got, prior):
			default:
				c.Violate("destination-touched", "desync extract", "%s: the destination (%d bytes, %v) is neither its previous state (%d bytes, existed=%v) nor the complete blob (%d bytes)", where, len(got), rerr, len(prior), prior != nil, len(blob))
				return
			}
		case 1:
			exit, _, stderr, err := runDesync(args...)
			if err != nil {
				c.HarnessError("%v", err)
				return
			}
			got, _ := os.ReadFile(out)
			if exit != 0 || !bytes.Equal(got, blob) {
				c.Violate("resume-wrong", "desync extract --in-place", "%s, then re-run: exit %d, output equals blob: %v: %s", where, exit, bytes.Equal(got, blob), tailBytes(stderr, 200))
				return
			}
		default:
			if _, why := validateStoreDir(target); why != "" {
				c.Violate("partial-chunk-visible", "desync "+names[kind], "%s: %s", where, why)
				return
			}
			if k%5 == 0 {
				exit, _, stderr, err := runDesync(args...)
				if err != nil {
					c.HarnessError("%v", err)
					return
				}
				_, why := validateStoreDir(target)
				if exit != 0 || why != "" {
					c.Violate("restart-failed", "desync "+names[kind], "%s, then re-run: exit %d %s: %s", where, exit, why, tailBytes(stderr, 200))
					return
				}
			}
		}
	}
	c.Key(S)
	c.Outcome("ok")
}
