package checks

import (
	"bytes"
	"encoding/xml"
	"fmt"
	"io"
	"net"
	"net/http"
	"net/url"
	"sort"
	"strings"
	"sync"
	"time"

	"github.com/folbricht/desync"
	minio "github.com/minio/minio-go/v6"
	"github.com/minio/minio-go/v6/pkg/credentials"
)

// ---- a minimal in-harness S3 endpoint (path style, V2 signatures are not checked) ----

type s3Sim struct {
	mu      sync.Mutex
	objects map[string][]byte // key (without bucket) -> content
	ln      net.Listener
	srv     *http.Server
	log     []string
}

func newS3Sim() (*s3Sim, error) {
	s := &s3Sim{objects: map[string][]byte{}}
	ln, err := net.Listen("tcp", "127.0.0.1:0")
	if err != nil {
		return nil, err
	}
	s.ln = ln
	s.srv = &http.Server{Handler: s}
	go s.srv.Serve(ln)
	return s, nil
}

func (s *s3Sim) close() { s.srv.Close() }

type s3ListResult struct {
	XMLName     xml.Name    `xml:"ListBucketResult"`
	Name        string      `xml:"Name"`
	Prefix      string      `xml:"Prefix"`
	KeyCount    int         `xml:"KeyCount"`
	MaxKeys     int         `xml:"MaxKeys"`
	IsTruncated bool        `xml:"IsTruncated"`
	Contents    []s3Content `xml:"Contents"`
}

type s3Content struct {
	Key          string `xml:"Key"`
	LastModified string `xml:"LastModified"`
	ETag         string `xml:"ETag"`
	Size         int    `xml:"Size"`
	StorageClass string `xml:"StorageClass"`
}

func (s *s3Sim) ServeHTTP(w http.ResponseWriter, r *http.Request) {
	parts := strings.SplitN(strings.TrimPrefix(r.URL.Path, "/"), "/", 2)
	key := ""
	if len(parts) == 2 {
		key = parts[1]
	}
	s.mu.Lock()
	s.log = append(s.log, r.Method+" "+key)
	s.mu.Unlock()
	notFound := func() {
		w.Header().Set("Content-Type", "application/xml")
		w.WriteHeader(404)
		if r.Method != "HEAD" {
			fmt.Fprintf(w, `<?xml version="1.0" encoding="UTF-8"?><Error><Code>NoSuchKey</Code><Message>The specified key does not exist.</Message><Key>%s</Key><BucketName>%s</BucketName><Resource>%s</Resource></Error>`, key, parts[0], r.URL.Path)
		}
	}
	switch {
	case key == "" && r.Method == "GET": // ListObjectsV2
		prefix := r.URL.Query().Get("prefix")
		res := s3ListResult{Name: parts[0], Prefix: prefix, MaxKeys: 1000}
		s.mu.Lock()
		var keys []string
		for k := range s.objects {
			if strings.HasPrefix(k, prefix) {
				keys = append(keys, k)
			}
		}
		sort.Strings(keys)
		for _, k := range keys {
			res.Contents = append(res.Contents, s3Content{Key: k, LastModified: time.Unix(1600000000, 0).UTC().Format("2006-01-02T15:04:05.000Z"), ETag: `"0"`, Size: len(s.objects[k]), StorageClass: "STANDARD"})
		}
		s.mu.Unlock()
		res.KeyCount = len(res.Contents)
		w.Header().Set("Content-Type", "application/xml")
		xml.NewEncoder(w).Encode(res)
	case r.Method == "GET" || r.Method == "HEAD":
		s.mu.Lock()
		b, ok := s.objects[key]
		s.mu.Unlock()
		if !ok {
			notFound()
			return
		}
		w.Header().Set("Content-Length", fmt.Sprint(len(b)))
		w.Header().Set("Last-Modified", time.Unix(1600000000, 0).UTC().Format(http.TimeFormat))
		w.Header().Set("ETag", `"0"`)
		w.Header().Set("Content-Type", "application/octet-stream")
		if r.Method == "GET" {
			w.Write(b)
		}
	case r.Method == "PUT":
		var buf bytes.Buffer
		io.Copy(&buf, r.Body)
		s.mu.Lock()
		s.objects[key] = buf.Bytes()
		s.mu.Unlock()
		w.Header().Set("ETag", `"0"`)
	case r.Method == "DELETE":
		s.mu.Lock()
		delete(s.objects, key)
		s.mu.Unlock()
		w.WriteHeader(204)
	default:
		w.WriteHeader(405)
	}
}

func (s *s3Sim) store(prefix string, uncompressed bool) (desync.S3Store, error) {
	u, _ := url.Parse("s3+http://" + s.ln.Addr().String() + "/bucket/" + prefix)
	creds := credentials.NewStaticV2("verif", "verifsecret", "")
	return desync.NewS3Store(u, creds, "us-east-1", desync.StoreOptions{Uncompressed: uncompressed, ErrorRetry: 0}, minio.BucketLookupPath)
}
