package checks

import (
	"bytes"
	"encoding/xml"
	"fmt"
	"io"
	"net"
	"net/http"
	"net/url"
	"sort"
	"strings"
	"sync"
	"time"

	"github.com/folbricht/desync"
	minio "github.com/minio/minio-go/v6"
	"github.com/minio/minio-go/v6/pkg/credentials"
)

// ---- a minimal in-harness S3 endpoint (path style, V2 signatures are not checked) ----

type s3Sim struct {
	mu      sync.Mutex
	objects map[string][]byte // key (without bucket) -> content
	ln      net.Listener
	srv     *http.Server
	log     []string
	uploads map[string]map[int][]byte // multipart: upload id -> part number -> bytes
	nextUp  int
	// holdKind/holdAt: the k-th request of that kind ("LIST" or "DELETE") waits until release is closed
	holdKind string
	holdAt   int
	seenKind map[string]int
	held     chan struct{}
	release  chan struct{}
}

func newS3Sim() (*s3Sim, error) {
	s := &s3Sim{objects: map[string][]byte{}, uploads: map[string]map[int][]byte{}, seenKind: map[string]int{}, held: make(chan struct{}), release: make(chan struct{})}
	ln, err := net.Listen("tcp", "127.0.0.1:0")
	if err != nil {
		return nil, err
	}
	s.ln = ln
	s.srv = &http.Server{Handler: s}
	go s.srv.Serve(ln)
	return s, nil
}

func (s *s3Sim) close() { s.srv.Close() }

type s3ListResult struct {
	XMLName     xml.Name    `xml:"ListBucketResult"`
	Name        string      `xml:"Name"`
	Prefix      string      `xml:"Prefix"`
	KeyCount    int         `xml:"KeyCount"`
	MaxKeys     int         `xml:"MaxKeys"`
	IsTruncated bool        `xml:"IsTruncated"`
	Contents    []s3Content `xml:"Contents"`
}

type s3Content struct {
	Key          string `xml:"Key"`
	LastModified string `xml:"LastModified"`
	ETag         string `xml:"ETag"`
	Size         int    `xml:"Size"`
	StorageClass string `xml:"StorageClass"`
}

func (s *s3Sim) ServeHTTP(w http.ResponseWriter, r *http.Request) {
	parts := strings.SplitN(strings.TrimPrefix(r.URL.Path, "/"), "/", 2)
	key := ""
	if len(parts) == 2 {
		key = parts[1]
	}
	s.mu.Lock()
	s.log = append(s.log, r.Method+" "+key)
	kind := ""
	switch {
	case key == "" && r.Method == "GET":
		kind = "LIST"
	case r.Method == "DELETE":
		kind = "DELETE"
	}
	s.seenKind[kind]++
	hold := kind != "" && kind == s.holdKind && s.seenKind[kind] == s.holdAt
	s.mu.Unlock()
	if hold {
		close(s.held)
		<-s.release
	}
	notFound := func() {
		w.Header().Set("Content-Type", "application/xml")
		w.WriteHeader(404)
		if r.Method != "HEAD" {
			fmt.Fprintf(w, `<?xml version="1.0" encoding="UTF-8"?><Error><Code>NoSuchKey</Code><Message>The specified key does not exist.</Message><Key>%s</Key><BucketName>%s</BucketName><Resource>%s</Resource></Error>`, key, parts[0], r.URL.Path)
		}
	}
	q := r.URL.Query()
	switch {
	case r.Method == "POST" && q.Has("uploads"): // initiate multipart upload
		s.mu.Lock()
		s.nextUp++
		id := fmt.Sprintf("upload-%d", s.nextUp)
		s.uploads[id] = map[int][]byte{}
		s.mu.Unlock()
		w.Header().Set("Content-Type", "application/xml")
		fmt.Fprintf(w, `<?xml version="1.0" encoding="UTF-8"?><InitiateMultipartUploadResult><Bucket>%s</Bucket><Key>%s</Key><UploadId>%s</UploadId></InitiateMultipartUploadResult>`, parts[0], key, id)
		return
	case r.Method == "PUT" && q.Get("uploadId") != "": // upload part
		var buf bytes.Buffer
		io.Copy(&buf, r.Body)
		n := 0
		fmt.Sscan(q.Get("partNumber"), &n)
		s.mu.Lock()
		up, ok := s.uploads[q.Get("uploadId")]
		if ok {
			up[n] = buf.Bytes()
		}
		s.mu.Unlock()
		if !ok {
			w.WriteHeader(404)
			return
		}
		w.Header().Set("ETag", fmt.Sprintf(`"part%d"`, n))
		return
	case r.Method == "POST" && q.Get("uploadId") != "": // complete multipart upload
		var req struct {
			Parts []struct {
				PartNumber int `xml:"PartNumber"`
			} `xml:"Part"`
		}
		xml.NewDecoder(r.Body).Decode(&req)
		s.mu.Lock()
		up, ok := s.uploads[q.Get("uploadId")]
		var whole []byte
		for _, p := range req.Parts {
			whole = append(whole, up[p.PartNumber]...)
		}
		if ok {
			s.objects[key] = whole
			delete(s.uploads, q.Get("uploadId"))
		}
		s.mu.Unlock()
		if !ok {
			w.WriteHeader(404)
			return
		}
		w.Header().Set("Content-Type", "application/xml")
		fmt.Fprintf(w, `<?xml version="1.0" encoding="UTF-8"?><CompleteMultipartUploadResult><Location>http://%s/%s/%s</Location><Bucket>%s</Bucket><Key>%s</Key><ETag>"whole"</ETag></CompleteMultipartUploadResult>`, r.Host, parts[0], key, parts[0], key)
		return
	case r.Method == "DELETE" && q.Get("uploadId") != "": // abort
		s.mu.Lock()
		delete(s.uploads, q.Get("uploadId"))
		s.mu.Unlock()
		w.WriteHeader(204)
		return
	}
	switch {
	case key == "" && r.Method == "GET": // ListObjectsV2
		prefix := r.URL.Query().Get("prefix")
		res := s3ListResult{Name: parts[0], Prefix: prefix, MaxKeys: 1000}
		s.mu.Lock()
		var keys []string
		for k := range s.objects {
			if strings.HasPrefix(k, prefix) {
				keys = append(keys, k)
			}
		}
		sort.Strings(keys)
		for _, k := range keys {
			res.Contents = append(res.Contents, s3Content{Key: k, LastModified: time.Unix(1600000000, 0).UTC().Format("2006-01-02T15:04:05.000Z"), ETag: `"0"`, Size: len(s.objects[k]), StorageClass: "STANDARD"})
		}
		s.mu.Unlock()
		res.KeyCount = len(res.Contents)
		w.Header().Set("Content-Type", "application/xml")
		xml.NewEncoder(w).Encode(res)
	case r.Method == "GET" || r.Method == "HEAD":
		s.mu.Lock()
		b, ok := s.objects[key]
		s.mu.Unlock()
		if !ok {
			notFound()
			return
		}
		w.Header().Set("Content-Length", fmt.Sprint(len(b)))
		w.Header().Set("Last-Modified", time.Unix(1600000000, 0).UTC().Format(http.TimeFormat))
		w.Header().Set("ETag", `"0"`)
		w.Header().Set("Content-Type", "application/octet-stream")
		if r.Method == "GET" {
			w.Write(b)
		}
	case r.Method == "PUT":
		var buf bytes.Buffer
		io.Copy(&buf, r.Body)
		s.mu.Lock()
		s.objects[key] = buf.Bytes()
		s.mu.Unlock()
		w.Header().Set("ETag", `"0"`)
	case r.Method == "DELETE":
		s.mu.Lock()
		delete(s.objects, key)
		s.mu.Unlock()
		w.WriteHeader(204)
	default:
		w.WriteHeader(405)
	}
}

func (s *s3Sim) store(prefix string, uncompressed bool) (desync.S3Store, error) {
	u, _ := url.Parse("s3+http://" + s.ln.Addr().String() + "/bucket/" + prefix)
	creds := credentials.NewStaticV2("verif", "verifsecret", "")
	return desync.NewS3Store(u, creds, "us-east-1", desync.StoreOptions{Uncompressed: uncompressed, ErrorRetry: 0}, minio.BucketLookupPath)
}
