package checks

import (
	"bytes"
	"errors"
	"fmt"
	"net"
	"net/http"
	"os"
	"os/exec"
	"path/filepath"
	"strings"
	"sync"
	"syscall"
	"time"

	"verif/fw"

	"github.com/folbricht/desync"
)

// ---- process-level simulation: the real desync binary against a gated chunk server ----

// errProcTimeout marks real-time trouble of the process-level harness (an overloaded machine): the case is
// dropped and counted, it is neither a verdict nor a reason to fail the check.
var errProcTimeout = errors.New("process-level harness timeout")

func desyncBin() string { return os.Getenv("VERIF_DESYNC_BIN") }

// procRate is the denominator of the share of process-level cases; VERIF_DEV_PROC=1 (development only, never set by
// the driver) turns every case into one.
func procRate(n int) int {
	if os.Getenv("VERIF_DEV_PROC") == "1" {
		return 1
	}
	return n
}

// gateServer serves compressed chunks over HTTP and can hold the k-th request of a kind.
type gateServer struct {
	mu       sync.Mutex
	chunks   map[string][]byte // "/abcd/<id>.cacnk" -> compressed bytes
	stored   map[string][]byte // PUT objects
	log      []string          // "GET /path" in arrival order
	holdKind string            // method to gate
	holdAt   int               // ordinal (1-based) of that method to hold; 0 = none
	seen     map[string]int
	held     chan struct{} // closed when the gated request has arrived
	release  chan struct{} // closed to let it proceed
	ln       net.Listener
	srv      *http.Server
	writable bool
	// failKind/failAt: answer the k-th request of that method with 500 (0 = none); failed counts deliveries
	failKind string
	failAt   int
	failed   int
	// failFirst: the first failFirst requests for each (method, path) are answered 503
	failFirst int
	perPath   map[string]int
}

func newGateServer(writable bool) (*gateServer, error) {
	g := &gateServer{chunks: map[string][]byte{}, stored: map[string][]byte{}, seen: map[string]int{}, perPath: map[string]int{}, held: make(chan struct{}), release: make(chan struct{}), writable: writable}
	ln, err := net.Listen("tcp", "127.0.0.1:0")
	if err != nil {
		return nil, err
	}
	g.ln = ln
	g.srv = &http.Server{Handler: g}
	go g.srv.Serve(ln)
	return g, nil
}

func (g *gateServer) url() string { return "http://" + g.ln.Addr().String() + "/" }
func (g *gateServer) close()      { g.srv.Close() }

func (g *gateServer) addChunk(b []byte) desync.ChunkID {
	id := desync.ChunkID(desync.Digest.Sum(b))
	z, _ := desync.Compress(b)
	s := id.String()
	g.chunks["/"+s[:4]+"/"+s+".cacnk"] = z
	return id
}

func (g *gateServer) ServeHTTP(w http.ResponseWriter, r *http.Request) {
	g.mu.Lock()
	g.log = append(g.log, r.Method+" "+r.URL.Path)
	g.seen[r.Method]++
	hold := g.holdAt > 0 && r.Method == g.holdKind && g.seen[r.Method] == g.holdAt
	fail := g.failAt > 0 && r.Method == g.failKind && g.seen[r.Method] == g.failAt
	g.perPath[r.Method+" "+r.URL.Path]++
	if g.failFirst > 0 && g.perPath[r.Method+" "+r.URL.Path] <= g.failFirst {
		g.failed++
		g.mu.Unlock()
		http.Error(w, "injected transient failure", 503)
		return
	}
	g.mu.Unlock()
	if hold {
		close(g.held)
		<-g.release
	}
	if fail {
		g.mu.Lock()
		g.failed++
		g.mu.Unlock()
		http.Error(w, "injected failure", 500)
		return
	}
	switch r.Method {
	case "GET":
		g.mu.Lock()
		b, ok := g.chunks[r.URL.Path]
		if !ok {
			b, ok = g.stored[r.URL.Path]
		}
		g.mu.Unlock()
		if !ok {
			http.NotFound(w, r)
			return
		}
		w.Write(b)
	case "HEAD":
		g.mu.Lock()
		_, ok := g.stored[r.URL.Path]
		g.mu.Unlock()
		if !ok {
			w.WriteHeader(404)
		}
	case "PUT":
		if !g.writable {
			w.WriteHeader(400)
			return
		}
		var buf bytes.Buffer
		buf.ReadFrom(r.Body)
		g.mu.Lock()
		g.stored[r.URL.Path] = buf.Bytes()
		g.mu.Unlock()
	}
}

func (g *gateServer) requests(method string) []string {
	g.mu.Lock()
	defer g.mu.Unlock()
	var out []string
	for _, l := range g.log {
		if strings.HasPrefix(l, method+" ") {
			out = append(out, strings.TrimPrefix(l, method+" "))
		}
	}
	return out
}

type procResult struct {
	exit     int
	signaled bool
	output   string
	heldSeen bool
}

// runGated starts the binary, waits until the gated request is held (or the child exits), delivers sig, releases the request and waits.
func runGated(g *gateServer, sig syscall.Signal, args ...string) (*procResult, error) {
	return runHeld(g.held, g.release, nil, sig, args...)
}

// runHeld is runGated for any server that closes held when the request of interest has arrived and lets it proceed
// when release is closed.
func runHeld(held <-chan struct{}, release chan struct{}, env []string, sig syscall.Signal, args ...string) (*procResult, error) {
	cmd := exec.Command(desyncBin(), args...)
	var out bytes.Buffer
	cmd.Stdout, cmd.Stderr = &out, &out
	cmd.Env = append(append(os.Environ(), "HOME=/nonexistent-verif-home"), env...)
	if err := cmd.Start(); err != nil {
		return nil, err
	}
	done := make(chan error, 1)
	go func() { done <- cmd.Wait() }()
	res := &procResult{}
	finish := func(err error) {
		if ee, ok := err.(*exec.ExitError); ok {
			res.exit = ee.ExitCode()
			if ws, ok := ee.Sys().(syscall.WaitStatus); ok && ws.Signaled() {
				res.signaled = true
			}
		} else if err != nil {
			res.exit = -1
		}
		res.output = out.String()
	}
	select {
	case err := <-done:
		finish(err)
		return res, nil
	case <-held:
		res.heldSeen = true
	case <-time.After(90 * time.Second):
		cmd.Process.Kill()
		<-done
		return nil, fmt.Errorf("%w: child neither exited nor reached the gated request: %s", errProcTimeout, out.String())
	}
	cmd.Process.Signal(sig)
	if sig != syscall.SIGKILL {
		time.Sleep(30 * time.Millisecond) // let the handler cancel the context before the request completes
	}
	close(release)
	select {
	case err := <-done:
		finish(err)
	case <-time.After(90 * time.Second):
		cmd.Process.Kill()
		<-done
		return nil, fmt.Errorf("%w: child did not exit after the signal: %s", errProcTimeout, out.String())
	}
	return res, nil
}

func runPlain(args ...string) (*procResult, error) {
	cmd := exec.Command(desyncBin(), args...)
	var out bytes.Buffer
	cmd.Stdout, cmd.Stderr = &out, &out
	cmd.Env = append(os.Environ(), "HOME=/nonexistent-verif-home")
	err := cmd.Run()
	res := &procResult{output: out.String()}
	if ee, ok := err.(*exec.ExitError); ok {
		res.exit = ee.ExitCode()
	} else if err != nil {
		return nil, err
	}
	return res, nil
}

// procBlob prepares a blob, its index file and a gated server holding its chunks.
type procBlob struct {
	blob  []byte
	idx   desync.Index
	index string
	g     *gateServer
}

func newProcBlob(c *fw.Case, writable bool) (*procBlob, error) {
	sz := sizes{256, 1024, 4096}
	p := &procBlob{}
	for tries := 0; tries < 5; tries++ {
		p.blob = genBlob(c, sz, 20*int(sz.max))
		if c.ChanceAdded(1, 3, "proc.dups") {
			p.blob = genDupBlob(c, sz) // the same chunk at several places in the index
		}
		p.idx = mkIndex(p.blob, sz)
		if len(p.idx.Chunks) >= 4 {
			break
		}
	}
	g, err := newGateServer(writable)
	if err != nil {
		return nil, err
	}
	p.g = g
	for _, ch := range p.idx.Chunks {
		g.addChunk(p.blob[ch.Start : ch.Start+ch.Size])
	}
	p.index = filepath.Join(c.Dir(), "blob.caibx")
	f, err := os.Create(p.index)
	if err != nil {
		return nil, err
	}
	defer f.Close()
	_, err = p.idx.WriteTo(f)
	return p, err
}
