package checks

import (
	"bytes"
	"encoding/binary"
	"fmt"
	"net/url"
	"os"
	"path/filepath"
	"testing"
	"time"

	"verif/fw"
	"verif/ref"

	"github.com/folbricht/desync"
	minio "github.com/minio/minio-go/v6"
	"github.com/minio/minio-go/v6/pkg/credentials"
)

// ---- C04: index files round-trip exactly and malformed ones are rejected ----

func sameIndex(a, b desync.Index) string {
	if a.Index.FeatureFlags != b.Index.FeatureFlags {
		return fmt.Sprintf("feature flags %x vs %x", a.Index.FeatureFlags, b.Index.FeatureFlags)
	}
	if a.Index.ChunkSizeMin != b.Index.ChunkSizeMin || a.Index.ChunkSizeAvg != b.Index.ChunkSizeAvg || a.Index.ChunkSizeMax != b.Index.ChunkSizeMax {
		return "chunk size parameters differ"
	}
	if len(a.Chunks) != len(b.Chunks) {
		return fmt.Sprintf("%d vs %d chunks", len(a.Chunks), len(b.Chunks))
	}
	for i := range a.Chunks {
		if a.Chunks[i] != b.Chunks[i] {
			return fmt.Sprintf("chunk %d differs: %+v vs %+v", i, a.Chunks[i], b.Chunks[i])
		}
	}
	return ""
}

// c04WrappedDigest is a caller's own HashAlgorithm built on one of desync's.
type c04WrappedDigest struct{ desync.HashAlgorithm }

var c04Fixtures = []string{"testdata/index.caibx", "testdata/chunker.index", "testdata/blob1.caibx", "cmd/desync/testdata/blob1.caibx", "cmd/desync/testdata/blob2.caibx", "cmd/desync/testdata/tree.caidx"}

func runC04(c *fw.Case) {
	if desyncBin() != "" && c.ChanceAdded(1, procRate(25), "c04.proc") {
		runC04Proc(c)
		return
	}
	sha256mode := c.Chance(1, 4, "sha256")
	// desync.Digest is an exported interface variable: a library caller may configure the algorithm as a value, as a
	// pointer (the methods have value receivers) or inside a type of its own; the digest-flag rule holds for all of them
	digestForm := c.T.DrawOptional(6, "digest.form", 0)
	if sha256mode || digestForm >= 4 {
		var d desync.HashAlgorithm = desync.SHA512256{}
		if sha256mode {
			d = desync.SHA256{}
		}
		switch {
		case digestForm == 4 && sha256mode:
			d = &desync.SHA256{}
		case digestForm == 4:
			d = &desync.SHA512256{}
		case digestForm == 5:
			d = c04WrappedDigest{d}
		}
		desync.Digest = d
		defer func() { desync.Digest = desync.SHA512256{} }()
	}
	// casync-made fixtures must re-encode byte-identically (SHA512/256 files only parse in that mode)
	if !sha256mode && c.Chance(1, 10, "fixture") {
		name := c04Fixtures[c.Draw(len(c04Fixtures), "fixture.n")]
		b, err := os.ReadFile(filepath.Join(repoDir(), name))
		if err != nil {
			c.HarnessError("%v", err)
			return
		}
		c.Class("fixture " + name)
		c.NonTrivial()
		var idx desync.Index
		if catch(c, "IndexFromReader", func() { idx, err = desync.IndexFromReader(bytes.NewReader(b)) }) {
			return
		}
		if err != nil {
			c.Violate("fixture-rejected", "IndexFromReader", "%s: %v", name, err)
			return
		}
		var out bytes.Buffer
		if _, err := idx.WriteTo(&out); err != nil {
			c.Violate("write-failed", "Index.WriteTo", "%v", err)
			return
		}
		if !bytes.Equal(out.Bytes(), b) {
			c.Violate("fixture-reencode-differs", "Index.WriteTo", "%s does not re-encode byte-identically (%d vs %d bytes)", name, out.Len(), len(b))
			return
		}
		c.Outcome("ok")
		return
	}
	sz := genSizes(c)
	n := c.Draw(201, "chunks")
	if c.Chance(1, 8, "fewchunks") {
		n = c.Draw(3, "chunks.few")
	}
	if c.Chance(1, 12, "manychunks") {
		n = 250 + c.Draw(800, "chunks.many") // tables larger than any internal buffer
	}
	r := c.Rand("index.seed")
	flags := uint64(desync.CaFormatExcludeNoDump)
	if !sha256mode {
		flags |= desync.CaFormatSHA512256
	}
	if c.Bool("extraflags") {
		flags |= uint64(r.Uint32()) // arbitrary feature flags in the low word
	}
	idx := desync.Index{Index: desync.FormatIndex{FeatureFlags: flags, ChunkSizeMin: sz.min, ChunkSizeAvg: sz.avg, ChunkSizeMax: sz.max}}
	var pos uint64
	for i := 0; i < n; i++ {
		var id desync.ChunkID
		for j := range id {
			id[j] = byte(r.IntN(256))
		}
		s := uint64(1 + r.IntN(int(sz.max)))
		if r.IntN(10) == 0 {
			s = sz.max
		}
		idx.Chunks = append(idx.Chunks, desync.IndexChunk{ID: id, Start: pos, Size: s})
		pos += s
	}
	storeKind := c.Draw(7, "store") % 4 // 0 stream, 1 local index store, 2 http index store, 3 S3 or SFTP index store (rarer: real sockets / a child process)
	if storeKind == 3 && c.Bool("store.sftp") {
		storeKind = 4
	}
	c.Class(fmt.Sprintf("chunks<=%d store=%d sha256=%v", (n+15)/16*16, storeKind, sha256mode))
	c.Note("index chunks=%d sizes=%v flags=%x store=%d sha256=%v", n, sz, flags, storeKind, sha256mode)
	var buf bytes.Buffer
	if _, err := idx.WriteTo(&buf); err != nil {
		c.Violate("write-failed", "Index.WriteTo", "%v", err)
		return
	}
	file := buf.Bytes()
	// independent parser recovers the same table, tail marker sizes included
	ri, err := ref.ParseCaibx(file)
	if err != nil {
		c.Violate("layout", "Index.WriteTo", "independent caibx parser rejects the written bytes: %v", err)
		return
	}
	if ri.Flags != flags || ri.Min != sz.min || ri.Avg != sz.avg || ri.Max != sz.max || len(ri.Chunks) != n {
		c.Violate("layout", "Index.WriteTo", "independent parser recovers different parameters")
		return
	}
	for i, ch := range ri.Chunks {
		if ch.Start != idx.Chunks[i].Start || ch.Size != idx.Chunks[i].Size || ch.ID != [32]byte(idx.Chunks[i].ID) {
			c.Violate("layout", "Index.WriteTo", "independent parser recovers a different chunk %d", i)
			return
		}
	}
	// read back through the chosen store
	dir := filepath.Join(c.Dir(), "idx")
	os.MkdirAll(dir, 0755)
	ls, err := desync.NewLocalIndexStore(dir)
	if err != nil {
		c.HarnessError("%v", err)
		return
	}
	var get func() (desync.Index, error)
	var put func(b []byte) error // plant raw bytes as the stored index
	switch storeKind {
	case 0:
		var cur []byte
		put = func(b []byte) error { cur = b; return nil }
		get = func() (desync.Index, error) {
			fr := &fragReader{data: cur, r: c.Rand("frag"), mode: c.Draw(4, "frag.mode"), eofWith: c.Bool("eofwith")}
			return desync.IndexFromReader(fr)
		}
	case 1:
		put = func(b []byte) error { return os.WriteFile(filepath.Join(dir, "x.caibx"), b, 0644) }
		get = func() (desync.Index, error) { return ls.GetIndex("x.caibx") }
		// the store writes the index itself as well, over an older and longer file of the same name
		os.WriteFile(filepath.Join(dir, "y.caibx"), append(append([]byte(nil), file...), bytes.Repeat([]byte("older index data "), 40)...), 0644)
		if err := ls.StoreIndex("y.caibx", idx); err != nil {
			c.Violate("store-failed", "LocalIndexStore.StoreIndex", "%v", err)
			return
		}
		if yb, _ := os.ReadFile(filepath.Join(dir, "y.caibx")); !bytes.Equal(yb, file) {
			c.Violate("stored-bytes-differ", "LocalIndexStore.StoreIndex", "an index stored over an older file of the same name: the file has %d bytes, Index.WriteTo gives %d", len(yb), len(file))
			return
		}
	case 2:
		h := desync.NewHTTPIndexHandler(ls, true, "")
		u, _ := url.Parse("http://sim.invalid/")
		cl, err := desync.NewRemoteHTTPIndexStore(u, desync.StoreOptions{ErrorRetry: 0})
		if err != nil {
			c.HarnessError("%v", err)
			return
		}
		desync.VerifSetHTTPTransport(cl.RemoteHTTPBase, &simTransport{h: h})
		put = func(b []byte) error { return os.WriteFile(filepath.Join(dir, "x.caibx"), b, 0644) }
		get = func() (desync.Index, error) { return cl.GetIndex("x.caibx") }
		// also store through the client once - over an older, longer file of the same name
		older := append(append([]byte(nil), file...), bytes.Repeat([]byte("older index data "), 40)...)
		os.WriteFile(filepath.Join(dir, "y.caibx"), older, 0644)
		if err := cl.StoreIndex("y.caibx", idx); err != nil {
			c.Violate("store-failed", "RemoteHTTPIndex.StoreIndex", "%v", err)
			return
		}
		yb, _ := os.ReadFile(filepath.Join(dir, "y.caibx"))
		if !bytes.Equal(yb, file) {
			c.Violate("stored-bytes-differ", "RemoteHTTPIndex.StoreIndex", "index stored through the HTTP index server differs from Index.WriteTo output")
			return
		}
		// and once more with the first attempt lost (a retried PUT must carry the whole index again)
		if c.Bool("http.retry") {
			cl2, err := desync.NewRemoteHTTPIndexStore(u, desync.StoreOptions{ErrorRetry: 3, ErrorRetryBaseInterval: time.Microsecond})
			if err != nil {
				c.HarnessError("%v", err)
				return
			}
			lost := []string{"503", "reset", "500"}[c.Draw(3, "http.retry.kind")]
			desync.VerifSetHTTPTransport(cl2.RemoteHTTPBase, &simTransport{h: h, script: []respScript{{lost}}})
			c.Fault("http-" + lost + "-then-retry")
			if err := cl2.StoreIndex("z.caibx", idx); err != nil {
				c.Violate("store-failed", "RemoteHTTPIndex.StoreIndex/retry", "first PUT answered %s, error-retry 3: %v", lost, err)
				return
			}
			zb, _ := os.ReadFile(filepath.Join(dir, "z.caibx"))
			if !bytes.Equal(zb, file) {
				c.Violate("stored-bytes-differ", "RemoteHTTPIndex.StoreIndex/retry", "first PUT answered %s; the index stored by the retry (%d bytes) differs from Index.WriteTo output (%d bytes)", lost, len(zb), len(file))
				return
			}
		}
	}
	if storeKind == 3 {
		s3, err := newS3Sim()
		if err != nil {
			c.HarnessError("%v", err)
			return
		}
		defer s3.close()
		u, _ := url.Parse("s3+http://" + s3.ln.Addr().String() + "/bucket/idx")
		is, err := desync.NewS3IndexStore(u, credentials.NewStaticV2("verif", "verifsecret", ""), "us-east-1", desync.StoreOptions{}, minio.BucketLookupPath)
		if err != nil {
			c.HarnessError("%v", err)
			return
		}
		put = func(b []byte) error {
			s3.mu.Lock()
			s3.objects["idx/x.caibx"] = append([]byte(nil), b...)
			s3.mu.Unlock()
			return nil
		}
		get = func() (desync.Index, error) { return is.GetIndex("x.caibx") }
		// store through the client as well (a multipart upload of unknown length)
		if c.Chance(1, 4, "s3.store") {
			c.Probe("S3IndexStore.StoreIndex (multipart upload)")
			if err := is.StoreIndex("y.caibx", idx); err != nil {
				c.Violate("store-failed", "S3IndexStore.StoreIndex", "%v", err)
				return
			}
			s3.mu.Lock()
			yb := s3.objects["idx/y.caibx"]
			s3.mu.Unlock()
			if !bytes.Equal(yb, file) {
				c.Violate("stored-bytes-differ", "S3IndexStore.StoreIndex", "index stored through the S3 index store (%d bytes) differs from Index.WriteTo output (%d bytes)", len(yb), len(file))
				return
			}
		}
	}
	if storeKind == 4 {
		is, err := sftpIndexStore(dir)
		if err != nil {
			c.HarnessError("%v", err)
			return
		}
		defer is.Close()
		put = func(b []byte) error { return os.WriteFile(filepath.Join(dir, "x.caibx"), b, 0644) }
		get = func() (desync.Index, error) { return is.GetIndex("x.caibx") }
		c.Probe("SFTPIndexStore (pkg/sftp server over the ssh shim)")
		os.WriteFile(filepath.Join(dir, "y.caibx"), append(append([]byte(nil), file...), bytes.Repeat([]byte("older index data "), 40)...), 0644)
		if err := is.StoreIndex("y.caibx", idx); err != nil {
			c.Violate("store-failed", "SFTPIndexStore.StoreIndex", "%v", err)
			return
		}
		yb, _ := os.ReadFile(filepath.Join(dir, "y.caibx"))
		if !bytes.Equal(yb, file) {
			c.Violate("stored-bytes-differ", "SFTPIndexStore.StoreIndex", "index stored through the SFTP index store (%d bytes) differs from Index.WriteTo output (%d bytes)", len(yb), len(file))
			return
		}
	}
	try := func(b []byte) (desync.Index, error, bool) {
		if err := put(b); err != nil {
			c.HarnessError("%v", err)
			return desync.Index{}, nil, false
		}
		var got desync.Index
		var err error
		if catch(c, "IndexFromReader", func() { got, err = get() }) {
			return got, err, false
		}
		c.SubEval(1)
		return got, err, true
	}
	got, err, ok := try(file)
	if !ok {
		return
	}
	if err != nil {
		c.Violate("valid-index-rejected", "IndexFromReader", "a freshly written index is rejected: %v", err)
		return
	}
	if d := sameIndex(got, idx); d != "" {
		c.Violate("roundtrip-differs", "IndexFromReader", "read back index differs: %s", d)
		return
	}
	reject := func(b []byte, what string) bool {
		g, err, ok := try(b)
		if !ok {
			return false
		}
		if err == nil {
			c.Violate("malformed-index-accepted", "IndexFromReader/"+what[:bytes.IndexByte(append([]byte(what), ' '), ' ')], "%s, yet it was accepted as an index with %d chunks (valid one has %d)", what, len(g.Chunks), n)
			return false
		}
		return true
	}
	// every strict prefix (torn write / cut connection)
	step := 1
	if storeKind != 0 && len(file) > 600 {
		step = 1 + len(file)/600 // stores cost a file write per probe: sample prefixes, always including the boundaries
	} else if len(file) > 9000 {
		step = 1 + len(file)/700
	}
	for l := 0; l < len(file); l += step {
		c.Fault("truncation")
		if !reject(file[:l], fmt.Sprintf("truncated to %d of %d bytes", l, len(file))) {
			return
		}
	}
	for _, l := range []int{len(file) - 1, len(file) - 8, len(file) - 40, 48, 64} {
		if l >= 0 && l < len(file) {
			c.Fault("truncation")
			if !reject(file[:l], fmt.Sprintf("truncated to %d of %d bytes", l, len(file))) {
				return
			}
		}
	}
	mut := func(f func(b []byte)) []byte {
		b := append([]byte(nil), file...)
		f(b)
		return b
	}
	item := func(i int) int { return 64 + 40*i }
	if n >= 2 {
		i := c.Draw(n-1, "swap.i")
		c.Fault("offsets-swapped")
		if !reject(mut(func(b []byte) {
			a, z := binary.LittleEndian.Uint64(b[item(i):]), binary.LittleEndian.Uint64(b[item(i+1):])
			binary.LittleEndian.PutUint64(b[item(i):], z)
			binary.LittleEndian.PutUint64(b[item(i+1):], a)
		}), fmt.Sprintf("offsets-decreasing (items %d and %d swapped)", i, i+1)) {
			return
		}
	}
	if n >= 1 {
		i := c.Draw(n, "bump.i")
		c.Fault("chunk-larger-than-max")
		if !reject(mut(func(b []byte) {
			// make chunk i larger than max by pushing all following offsets up
			for j := i; j < n; j++ {
				o := binary.LittleEndian.Uint64(b[item(j):])
				binary.LittleEndian.PutUint64(b[item(j):], o+sz.max)
			}
		}), fmt.Sprintf("chunk-exceeds-max (chunk %d enlarged by max)", i)) {
			return
		}
	}
	c.Fault("digest-flag-flipped")
	if !reject(mut(func(b []byte) {
		f := binary.LittleEndian.Uint64(b[16:])
		binary.LittleEndian.PutUint64(b[16:], f^desync.CaFormatSHA512256)
	}), "digest-flag flipped") {
		return
	}
	c.Outcome("ok")
}

func TestC04(t *testing.T) {
	fw.Main(t, &fw.Check{ID: "C04", Level: "fault_enumeration", Run: runC04})
}
