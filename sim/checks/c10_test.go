package checks

import (
	"bytes"
	"fmt"
	"io"
	"os"
	"path/filepath"
	"testing"

	"verif/fw"
	"verif/simrt"

	"github.com/folbricht/desync"
)

// ---- C10: copy-on-read sparse files return the blob's bytes or an error, never stale zeros ----

type c10Read struct {
	off, n int64
	node   bool // through the FUSE node instead of SparseFileHandle.ReadAt
}

func runC10(c *fw.Case) {
	sz := c09Sizes[c.Draw(len(c09Sizes), "c10.sizes")]
	var blob []byte
	for tries := 0; tries < 3; tries++ {
		blob = genNullyBlob(c, sz)
		if len(blob) > 0 {
			break
		}
	}
	if len(blob) > 24*int(sz.max) {
		blob = blob[:24*int(sz.max)]
	}
	idx := mkIndex(blob, sz)
	L := int64(len(blob))
	dir := c.Dir()
	cache := filepath.Join(dir, "cache")
	state := filepath.Join(dir, "state")
	initState := filepath.Join(dir, "init-state")
	nphases := c.Range(1, 3, "phases")
	c.Note("sizes=%v blob(%s) chunks=%d phases=%d", sz, describeBlob(blob), len(idx.Chunks), nphases)
	c.Class(fmt.Sprintf("sizes=%d/%d phases=%d chunks<=%d", sz.min, sz.max, nphases, (len(idx.Chunks)+7)/8*8))
	// the state option is the same for all restarts of one case: a run without it cannot
	// keep a state file from an earlier run consistent with what it does to the cache file
	noState := c.Chance(1, 5, "nostate")
	tick := 0
	chunksIn := func(off, n int64) map[desync.ChunkID]bool {
		m := map[desync.ChunkID]bool{}
		end := off + n
		for _, ch := range idx.Chunks {
			s, e := int64(ch.Start), int64(ch.Start+ch.Size)
			if (s < end && off < e) || (n == 0 && off >= s && off < e) {
				m[ch.ID] = true
			}
		}
		if off >= L && len(idx.Chunks) > 0 { // reads past the end load the last chunk
			m[idx.Chunks[len(idx.Chunks)-1].ID] = true
		}
		return m
	}
	for phase := 1; phase <= nphases && !c.Violated(); phase++ {
		st := newSimStore(c, fmt.Sprintf("store%d", phase))
		st.fill(blob, idx.Chunks)
		st.tick = &tick
		if phase > 1 && c.Chance(1, 3, "deadstore") {
			st.dead = true
			c.Fault("store-dead-after-restart")
		} else if c.Chance(2, 3, "c10.faulty") {
			for i, n := 0, c.Range(1, 3, "nfaults"); i < n; i++ {
				kinds := []string{"error", "error", "missing", "delay"}
				st.faults = append(st.faults, storeFault{op: "get", nth: 1 + c.Draw(16, "fault.nth"), kind: kinds[c.Draw(4, "fault.kind")]})
			}
		}
		opt := desync.SparseFileOptions{StateSaveFile: state}
		if noState {
			opt.StateSaveFile = ""
		}
		// fault: a start that fails half-way - the operator names a pre-load state file that does not exist or belongs
		// to another index; whatever that attempt did to the cache and state files, the next start must cope with
		if phase > 1 && !noState && c.ChanceAdded(1, 4, "c10.failedstart") {
			bad := filepath.Join(dir, "no-such-init-state")
			if c.Bool("failedstart.mismatch") {
				bad = filepath.Join(dir, "other-init-state")
				os.WriteFile(bad, make([]byte, len(idx.Chunks)/8+2+c.Draw(3, "failedstart.len")), 0644)
			}
			sf, err := desync.NewSparseFile(cache, idx, st, desync.SparseFileOptions{StateSaveFile: state, StateInitFile: bad, StateInitConcurrency: 1})
			if err != nil {
				c.Fault("start-failed-on-bad-init-state")
			} else {
				_ = sf // nothing was read through it; it holds no unsaved state
				c.Probe("start with a bad init state file succeeded")
			}
		}
		preload := false
		if _, err := os.Stat(initState); err == nil && c.Chance(1, 2, "preload") {
			opt.StateInitFile = initState
			opt.StateInitConcurrency = c.Draw(5, "preload.n")
			preload = true
		}
		// the documentation allows the same file for both roles
		sameState := false
		if _, err := os.Stat(state); err == nil && !noState && !preload && c.ChanceAdded(1, 4, "c10.samestate") {
			opt.StateInitFile = state
			opt.StateInitConcurrency = c.Draw(5, "preload.n")
			preload, sameState = true, true
			c.Probe("state file used for init and save")
		}
		nreaders := c.Range(1, 4, "readers")
		plans := make([][]c10Read, nreaders)
		for i := range plans {
			viaNode := c.Chance(1, 3, "via.node")
			for j, n := 0, c.Range(1, 12, "reads"); j < n; j++ {
				r := c10Read{node: viaNode}
				r.off = int64(c.Draw(int(L)+int(sz.max), "read.off"))
				if c.Chance(1, 3, "read.boundary") && len(idx.Chunks) > 0 {
					ch := idx.Chunks[c.Draw(len(idx.Chunks), "read.chunk")]
					r.off = int64(ch.Start) + int64(c.Range(-2, 2, "read.d"))
					if r.off < 0 {
						r.off = 0
					}
				}
				r.n = int64(c.Draw(3*int(sz.max), "read.len")) + 1
				if viaNode && r.off > L {
					r.off = L
				}
				plans[i] = append(plans[i], r)
			}
		}
		writeStates := c.Draw(3, "writestates")
		crashAt := -1
		if c.Chance(1, 4, "crash") {
			crashAt = c.Draw(400, "crash.at")
		}
		yieldIO := c.Chance(1, 2, "c10.yieldio")
		c.Note("phase %d: dead=%v faults=%v state=%q preload=%v(n=%d) readers=%d crashAt=%d", phase, st.dead, st.faults, opt.StateSaveFile, preload, opt.StateInitConcurrency, nreaders, crashAt)
		var newErr error
		sr := c.Sim(func(rt *simrt.RT) {
			st.rt = rt
			rt.MaxSteps = 200000
			rt.YieldIO = yieldIO
			if crashAt >= 0 {
				rt.AtStep(crashAt, func() { c.Fault("process-death"); rt.Abort("crash") })
			}
			rt.Go("main", func() {
				sf, err := desync.NewSparseFile(cache, idx, st, opt)
				if err != nil {
					newErr = err
					return
				}
				node := desync.VerifNewSparseNode(sf)
				for i := range plans {
					pl := plans[i]
					name := fmt.Sprintf("reader%d", i)
					rt.Go(name, func() {
						var h *desync.SparseFileHandle
						if len(pl) > 0 && pl[0].node {
							fh, errno := node.Open()
							if errno != 0 {
								c.Violate("open-failed", "sparseIndexFile.Open", "%v", errno)
								return
							}
							h = fh.(*desync.SparseFileHandle)
						} else {
							var err error
							h, err = sf.Open()
							if err != nil {
								c.Violate("open-failed", "SparseFile.Open", "%v", err)
								return
							}
						}
						defer h.Close()
						for _, r := range pl {
							if c.Violated() {
								return
							}
							tick++
							inv := tick
							var data []byte
							var err error
							if r.node {
								var errno error
								d, e := node.Read(h, int(r.n), r.off)
								if e != 0 {
									errno = e
								}
								data, err = d, errno
								if err == nil && int64(len(d)) < r.n {
									err = io.EOF // the node folds EOF into a short result
								}
							} else {
								buf := make([]byte, r.n)
								var n int
								n, err = h.ReadAt(buf, r.off)
								data = buf[:n]
							}
							tick++
							ret := tick
							c.SubEval(1)
							var want []byte
							if r.off < L {
								e := r.off + r.n
								if e > L {
									e = L
								}
								want = blob[r.off:e]
							}
							site := "SparseFileHandle.ReadAt"
							if r.node {
								site = "sparseIndexFile.Read"
							}
							switch {
							case err == nil || err == io.EOF:
								if !bytes.Equal(data, want) {
									kind := "wrong-data"
									if len(data) == len(want) && len(bytes.Trim(data, "\x00")) == 0 {
										kind = "stale-zeros"
									}
									c.Violate(kind, site, "phase %d: read(off %d, len %d) returned %d bytes (err=%v) that differ from the blob range (%d bytes)", phase, r.off, r.n, len(data), err, len(want))
									return
								}
								if err == nil && int64(len(data)) != r.n {
									c.Violate("short-read", site, "phase %d: read(off %d, len %d) returned %d bytes and a nil error", phase, r.off, r.n, len(data))
									return
								}
							default:
								ids := chunksIn(r.off, r.n)
								ok := false
								for _, f := range st.failLog {
									if ids[f.id] && f.tick > inv && f.tick < ret {
										ok = true
									}
								}
								if !ok {
									c.Violate("error-without-fault", site, "phase %d: read(off %d, len %d) failed (%v) although no store failure was injected for its chunks during the call", phase, r.off, r.n, err)
									return
								}
								c.Probe("read-error-after-fault")
							}
							rt.Yield("reader.next")
						}
					})
				}
				for i := 0; i < writeStates; i++ {
					k := c.Draw(60, "writestate.after")
					rt.Go(fmt.Sprintf("saver%d", i), func() {
						for j := 0; j < k; j++ {
							rt.Yield("saver.wait")
						}
						if err := sf.WriteState(); err != nil {
							c.Violate("writestate-failed", "SparseFile.WriteState", "%v", err)
						}
						c.Probe("state-saved-under-load")
					})
				}
			})
		})
		st.rt = nil
		if len(sr.Panics) > 0 {
			p := sr.Panics[0]
			c.Violate("panic", p.Site, "phase %d: task %s panicked in %s: %s", phase, p.Task, p.Site, p.Value)
			return
		}
		if sr.Aborted == "step-budget" {
			c.Violate("livelock", "SparseFile", "step budget exceeded")
			return
		}
		if sr.Hang {
			c.Violate("hang", "SparseFile", "phase %d: readers blocked forever: %v", phase, sr.RT.HangTasks)
			return
		}
		if newErr != nil && sameState {
			// starting over with a blank cache file removes the state file it was asked to pre-load from: an error,
			// which is one of the two outcomes the property allows
			c.Probe("same-state-file: NewSparseFile failed")
			continue
		}
		if newErr != nil {
			c.Violate("open-failed", "NewSparseFile", "phase %d: %v", phase, newErr)
			return
		}
		if c.Violated() {
			return
		}
		// between phases: what a restart may find
		if phase < nphases {
			if b, err := os.ReadFile(state); err == nil && len(b) == (len(idx.Chunks)+7)/8 && c.Chance(1, 2, "keep.init") {
				os.WriteFile(initState, b, 0644)
			}
			switch c.Draw(8, "between") {
			case 0:
				os.Remove(state)
				c.Fault("state-file-removed")
			case 1:
				os.Remove(cache)
				c.Fault("cache-file-removed")
			case 2:
				if L > 0 {
					os.Truncate(cache, int64(c.Draw(int(L), "cache.cut")))
					c.Fault("cache-file-shrunk")
				}
			case 3:
				os.Truncate(cache, L+int64(1+c.Draw(5000, "cache.grow")))
				c.Fault("cache-file-grown")
			case 4:
				os.WriteFile(state, make([]byte, len(idx.Chunks)/8+2+c.Draw(3, "state.len")), 0644)
				c.Fault("state-file-of-other-index")
			}
		}
	}
	if !c.Violated() {
		c.Outcome("ok")
	}
}

func TestC10(t *testing.T) {
	fw.Main(t, &fw.Check{ID: "C10", Level: "exploration", Run: runC10})
}
