package checks

import (
	"context"
	"os"
	"path/filepath"
	"syscall"
	"testing"
	"time"

	"github.com/folbricht/desync"
)

// TestS3SimSelf checks the harness S3 endpoint against the real S3Store client.
func TestS3SimSelf(t *testing.T) {
	s, err := newS3Sim()
	if err != nil {
		t.Fatal(err)
	}
	defer s.close()
	st, err := s.store("pfx", false)
	if err != nil {
		t.Fatal(err)
	}
	ch := desync.NewChunk([]byte("hello s3 simulation"))
	if err := st.StoreChunk(ch); err != nil {
		t.Fatal(err)
	}
	got, err := st.GetChunk(ch.ID())
	if err != nil {
		t.Fatal(err)
	}
	b, _ := got.Data()
	if string(b) != "hello s3 simulation" {
		t.Fatal("data differs")
	}
	if ok, _ := st.HasChunk(ch.ID()); !ok {
		t.Fatal("HasChunk false")
	}
	if _, err := st.GetChunk(desync.ChunkID{1}); err == nil {
		t.Fatal("missing chunk returned")
	} else if _, ok := err.(desync.ChunkMissing); !ok {
		t.Fatalf("missing chunk reported as %T %v", err, err)
	}
	if err := st.Prune(context.Background(), map[desync.ChunkID]struct{}{}); err != nil {
		t.Fatal(err)
	}
	if ok, _ := st.HasChunk(ch.ID()); ok {
		t.Fatal("prune did not remove the chunk")
	}
	t.Logf("requests: %v", s.log)
}

// TestSFTPShimSelf checks the sftp shim against the real SFTPStore client.
func TestSFTPShimSelf(t *testing.T) {
	dir := t.TempDir()
	st, err := sftpStore(dir, 2, false)
	if err != nil {
		t.Fatal(err)
	}
	defer st.Close()
	ch := desync.NewChunk([]byte("hello sftp shim"))
	if err := st.StoreChunk(ch); err != nil {
		t.Fatal(err)
	}
	got, err := st.GetChunk(ch.ID())
	if err != nil {
		t.Fatal(err)
	}
	if b, _ := got.Data(); string(b) != "hello sftp shim" {
		t.Fatal("data differs")
	}
	if _, err := st.GetChunk(desync.ChunkID{7}); err == nil {
		t.Fatal("missing chunk returned")
	} else if _, ok := err.(desync.ChunkMissing); !ok {
		t.Fatalf("missing reported as %T %v", err, err)
	}
}

// TestPtraceSelf: the tracer counts the file-system calls of a real extract and kills it in front of each of them.
func TestPtraceSelf(t *testing.T) {
	if desyncBin() == "" {
		t.Skip("no binary")
	}
	dir := t.TempDir()
	out := filepath.Join(dir, "out")
	args := []string{"extract", "-n", "1", "-s", filepath.Join(repoDir(), "cmd/desync/testdata/blob1.store"), filepath.Join(repoDir(), "cmd/desync/testdata/blob1.caibx"), out}
	os.WriteFile(out, []byte("old"), 0644)
	r, err := runTraced(0, dir, time.Minute, args...)
	if err != nil || r.exit != 0 || r.signaled {
		t.Fatalf("fault-free traced run: %v %+v", err, r)
	}
	t.Logf("%d file-system calls: %v ... %v", len(r.points), r.points[:5], r.points[len(r.points)-5:])
	for _, k := range []int{1, 2, len(r.points) / 2, len(r.points) - 1, len(r.points)} {
		os.WriteFile(out, []byte("old"), 0644)
		r2, err := runTraced(k, dir, time.Minute, args...)
		if err != nil || !r2.signaled {
			t.Fatalf("k=%d: %v %+v", k, err, r2)
		}
		b, _ := os.ReadFile(out)
		t.Logf("k=%d died before %s; destination has %d bytes", k, r2.killedAt, len(b))
	}
}

// TestPtraceFaultSelf: a write that fails with ENOSPC makes the real extract fail; a sticky one as well.
func TestPtraceFaultSelf(t *testing.T) {
	if desyncBin() == "" {
		t.Skip("no binary")
	}
	dir := t.TempDir()
	out := filepath.Join(dir, "out")
	args := []string{"extract", "-n", "1", "-s", filepath.Join(repoDir(), "cmd/desync/testdata/blob1.store"), filepath.Join(repoDir(), "cmd/desync/testdata/blob1.caibx"), out}
	r, err := runTraced(0, dir, time.Minute, args...)
	if err != nil || r.exit != 0 {
		t.Fatalf("%v %+v", err, r)
	}
	for _, sticky := range []bool{false, true} {
		k := 0
		for i, p := range r.points {
			if p == "pwrite64" {
				k = i + 1
				break
			}
		}
		os.Remove(out)
		r2, err := runTracedFault(k, &sysFault{errno: syscall.ENOSPC, sticky: sticky}, dir, time.Minute, args...)
		if err != nil || r2.signaled {
			t.Fatalf("%v %+v", err, r2)
		}
		t.Logf("sticky=%v: call %d (%s) failed with ENOSPC, exit %d", sticky, k, r2.killedAt, r2.exit)
		if r2.exit == 0 {
			t.Fatalf("extract succeeded although a write failed")
		}
	}
}
