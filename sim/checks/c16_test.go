package checks

import (
	"bytes"
	"context"
	"crypto/sha512"
	"encoding/hex"
	"fmt"
	"os"
	"path/filepath"
	"regexp"
	"sort"
	"strings"
	"testing"
	"time"

	"verif/fw"
	"verif/simrt"

	"github.com/folbricht/desync"
)

// ---- C16: prune and verify remove exactly what they should ----

type c16File struct {
	rel        string // path relative to the store
	kind       string // chunk | chunk-other-format | invalid-chunk | tmp | junk | misplaced
	id         string // hex id for chunk-like files
	valid      bool
	ownFmt     bool
	referenced bool
}

var hex64 = regexp.MustCompile(`[0-9a-f]{64}`)

// wrongDir returns a 4-digit directory name that is certainly not the one the chunk id belongs in.
func wrongDir(id string) string {
	if id[0] == 'f' {
		return "e" + id[1:4]
	}
	return "f" + id[1:4]
}

// runC16S3 prunes an S3 store (in-harness endpoint) holding objects of both formats, junk keys and objects outside the prefix.
func runC16S3(c *fw.Case) {
	unc := c.Bool("c16.uncompressed")
	s3, err := newS3Sim()
	if err != nil {
		c.HarnessError("%v", err)
		return
	}
	defer s3.close()
	prefix := []string{"", "pfx", "a/b", "store", "backup/chunks", "cafe/0"}[c.Draw(6, "s3.prefix")]
	st, err := s3.store(prefix, unc)
	if err != nil {
		c.HarnessError("%v", err)
		return
	}
	pfx := prefix
	if pfx != "" {
		pfx += "/"
	}
	r := c.Rand("c16.seed")
	type obj struct {
		key        string
		kind       string
		id         desync.ChunkID
		ownFmt     bool
		referenced bool
	}
	var objs []*obj
	keep := map[desync.ChunkID]struct{}{}
	refMode := c.Draw(4, "ref.mode")
	n := c.Range(0, 30, "c16.objects")
	for i := 0; i < n; i++ {
		var id desync.ChunkID
		for j := range id {
			id[j] = byte(r.IntN(256))
		}
		sid := id.String()
		name := func(uncompressed bool) string {
			k := pfx + sid[:4] + "/" + sid
			if !uncompressed {
				k += ".cacnk"
			}
			return k
		}
		o := &obj{id: id}
		switch c.Draw(8, "s3obj.kind") {
		case 0, 1, 2, 3:
			o.key, o.kind, o.ownFmt = name(unc), "chunk", true
		case 4:
			o.key, o.kind = name(!unc), "chunk-other-format"
		case 5:
			o.key, o.kind = pfx+"notes/"+sid[:8]+".txt", "junk"
		case 6:
			o.key, o.kind = "elsewhere/"+sid[:4]+"/"+sid+".cacnk", "outside-prefix"
			if prefix == "" {
				o.key, o.kind = pfx+sid[:4]+"/README", "junk"
			}
		case 7:
			// a chunk-like name that is not where the store keeps that id: another directory, a directory that is only
			// a prefix (or the whole) of the name, no directory at all, upper case
			ext := map[bool]string{true: "", false: ".cacnk"}[unc]
			switch c.Draw(6, "s3obj.misplaced") {
			case 0:
				o.key = pfx + "zzzz/" + sid + ext
			case 1:
				o.key = pfx + sid[:2] + "/" + sid + ext
			case 2:
				o.key = pfx + sid[:8] + "/" + sid + ext
			case 3:
				o.key = pfx + sid + "/" + sid + ext
			case 4:
				o.key = pfx + "/" + sid + ext
			case 5:
				o.key = pfx + strings.ToUpper(sid[:4]) + "/" + strings.ToUpper(sid) + ext
			}
			o.kind = "misplaced"
		}
		if o.ownFmt && (refMode == 1 || (refMode >= 2 && r.IntN(2) == 0)) {
			o.referenced = true
			keep[id] = struct{}{}
		}
		s3.objects[o.key] = []byte("object " + o.kind)
		objs = append(objs, o)
	}
	if refMode == 3 {
		keep[desync.ChunkID{9, 9, 9}] = struct{}{}
	}
	c.Class(fmt.Sprintf("s3-prune unc=%v prefix=%q objects<=%d", unc, prefix, (n+7)/8*8))
	c.Note("S3 prune uncompressed=%v prefix=%q objects=%d refMode=%d", unc, prefix, n, refMode)
	c.NonTrivial()
	var perr error
	if catch(c, "S3Store.Prune", func() { perr = st.Prune(context.Background(), keep) }) {
		return
	}
	for _, o := range objs {
		s3.mu.Lock()
		_, there := s3.objects[o.key]
		s3.mu.Unlock()
		mustKeep := !o.ownFmt || o.referenced
		if mustKeep && !there {
			c.Violate("prune-deleted-too-much", "S3Store.Prune/"+o.kind, "prune removed %s (%s, referenced=%v)", o.key, o.kind, o.referenced)
			return
		}
		if perr == nil && !mustKeep && there {
			c.Violate("prune-left-garbage", "S3Store.Prune/"+o.kind, "prune reported success but unreferenced %s is still there", o.key)
			return
		}
	}
	if perr != nil {
		c.Violate("prune-failed", "S3Store.Prune", "%v", perr)
		return
	}
	c.Outcome("ok")
}

// runC16SFTP prunes a directory through the real SFTPStore (sftp server spoken over stdio by the ssh shim).
func runC16SFTP(c *fw.Case) {
	unc := c.Bool("c16.uncompressed")
	pool := c.Range(1, 3, "sftp.pool")
	dir := filepath.Join(c.Dir(), "store")
	os.MkdirAll(dir, 0755)
	r := c.Rand("c16.seed")
	type obj struct {
		rel        string
		kind       string
		ownFmt     bool
		referenced bool
	}
	var objs []*obj
	keep := map[desync.ChunkID]struct{}{}
	refMode := c.Draw(3, "ref.mode") // none, all, subset
	n := c.Range(0, 16, "c16.objects")
	for i := 0; i < n; i++ {
		var id desync.ChunkID
		for j := range id {
			id[j] = byte(r.IntN(256))
		}
		sid := id.String()
		rel := func(uncompressed bool) string {
			k := filepath.Join(sid[:4], sid)
			if !uncompressed {
				k += ".cacnk"
			}
			return k
		}
		o := &obj{}
		switch c.Draw(6, "sftpobj.kind") {
		case 0, 1, 2:
			o.rel, o.kind, o.ownFmt = rel(unc), "chunk", true
		case 3:
			o.rel, o.kind = rel(!unc), "chunk-other-format"
		case 4:
			o.rel, o.kind = filepath.Join(sid[:4], "notes.txt"), "junk"
		case 5:
			o.rel, o.kind = rel(unc)+fmt.Sprint(r.IntN(1<<30)), "abandoned-temp-object" // what StoreObject leaves behind when killed
		}
		// a file that only looks like an upload's temporary name (a chunk name followed by something that is not the
		// decimal number StoreObject appends) is somebody else's file: it stays
		if c.ChanceAdded(1, 6, "sftpobj.nearmiss") {
			suffix := []string{"-1", "+20260101", ".bak", "x12", "-", "12a", "_7"}[c.Draw(7, "sftpobj.nearmiss.suffix")]
			*o = obj{rel: rel(unc) + suffix, kind: "junk"}
		}
		if o.ownFmt && (refMode == 1 || (refMode == 2 && r.IntN(2) == 0)) {
			o.referenced = true
			keep[id] = struct{}{}
		}
		p := filepath.Join(dir, o.rel)
		os.MkdirAll(filepath.Dir(p), 0755)
		os.WriteFile(p, []byte("object "+o.kind), 0644)
		objs = append(objs, o)
	}
	c.Class(fmt.Sprintf("sftp-prune unc=%v pool=%d objects<=%d", unc, pool, (n+7)/8*8))
	c.Note("SFTP prune uncompressed=%v pool=%d objects=%d refMode=%d", unc, pool, n, refMode)
	c.NonTrivial()
	st, err := sftpStore(dir, pool, unc)
	if err != nil {
		c.HarnessError("%v", err)
		return
	}
	done := make(chan error, 1)
	go func() {
		defer func() {
			if r := recover(); r != nil {
				done <- fmt.Errorf("panic: %v", r)
			}
		}()
		done <- st.Prune(context.Background(), keep)
	}()
	var perr error
	select {
	case perr = <-done:
		st.Close()
	case <-time.After(5 * time.Second):
		c.Violate("prune-hangs", "SFTPStore.Prune", "prune with a connection pool of %d did not return within 5 s (uncompressed=%v, %d objects)", pool, unc, n)
		return
	}
	for _, o := range objs {
		_, err := os.Lstat(filepath.Join(dir, o.rel))
		there := err == nil
		mustKeep := o.kind == "junk" || o.kind == "chunk-other-format" || (o.ownFmt && o.referenced)
		if mustKeep && !there {
			c.Violate("prune-deleted-too-much", "SFTPStore.Prune/"+o.kind, "prune removed %s (%s, referenced=%v)", o.rel, o.kind, o.referenced)
			return
		}
		if perr == nil && !mustKeep && there {
			c.Violate("prune-left-garbage", "SFTPStore.Prune/"+o.kind, "prune reported success (uncompressed=%v) but unreferenced %s (%s) is still there", unc, o.rel, o.kind)
			return
		}
	}
	if perr != nil {
		c.Violate("prune-failed", "SFTPStore.Prune", "%v", perr)
		return
	}
	c.Outcome("ok")
}

func runC16(c *fw.Case) {
	if desyncBin() != "" && c.ChanceAdded(1, procRate(120), "c16.proc") {
		runC16Proc(c)
		return
	}
	if c.Chance(1, 12, "c16.s3") {
		runC16S3(c)
		return
	}
	if c.Chance(1, 40, "c16.sftp") {
		runC16SFTP(c)
		return
	}
	unc := c.Bool("c16.uncompressed") // store mode under test
	// the name of the store directory is the user's business: hidden, with blanks, ending in the chunk extension
	dir := filepath.Join(c.Dir(), []string{"store", ".store", "store dir", "store.cacnk", ".cache/desync"}[c.T.DrawOptional(5, "c16.dirname", 0)])
	os.MkdirAll(dir, 0755)
	r := c.Rand("c16.seed")
	var files []*c16File
	write := func(rel string, b []byte) {
		p := filepath.Join(dir, rel)
		os.MkdirAll(filepath.Dir(p), 0755)
		os.WriteFile(p, b, 0644)
	}
	mkData := func() []byte {
		b := make([]byte, 1+r.IntN(600))
		for i := range b {
			b[i] = byte(r.IntN(256))
		}
		if r.IntN(3) == 0 {
			for i := range b {
				b[i] = byte(i / 5)
			}
		}
		return b
	}
	encode := func(b []byte, uncompressed bool) []byte {
		if uncompressed {
			return b
		}
		z, _ := desync.Compress(b)
		return z
	}
	relOf := func(id string, uncompressed bool) string {
		rel := filepath.Join(id[:4], id)
		if !uncompressed {
			rel += ".cacnk"
		}
		return rel
	}
	usedIDs := map[string]bool{}
	strays := 0 // files with chunk-like names outside their canonical place: prune may give up on them (error), it must not delete them
	nobj := c.Range(0, 40, "c16.objects")
	for i := 0; i < nobj; i++ {
		data := mkData()
		sum := sha512.Sum512_256(data)
		id := hex.EncodeToString(sum[:])
		if usedIDs[id] {
			continue
		}
		usedIDs[id] = true
		switch c.Draw(10, "obj.kind") {
		case 0, 1, 2, 3: // valid chunk in the store's own format
			write(relOf(id, unc), encode(data, unc))
			files = append(files, &c16File{rel: relOf(id, unc), kind: "chunk", id: id, valid: true, ownFmt: true})
		case 4: // same chunk in both formats
			write(relOf(id, unc), encode(data, unc))
			write(relOf(id, !unc), encode(data, !unc))
			files = append(files, &c16File{rel: relOf(id, unc), kind: "chunk", id: id, valid: true, ownFmt: true})
			files = append(files, &c16File{rel: relOf(id, !unc), kind: "chunk-other-format", id: id, valid: true})
		case 5: // only the other format
			write(relOf(id, !unc), encode(data, !unc))
			files = append(files, &c16File{rel: relOf(id, !unc), kind: "chunk-other-format", id: id, valid: true})
		case 6: // invalid chunk in own format
			b := encode(data, unc)
			switch r.IntN(4) {
			case 0:
				p := r.IntN(len(b))
				bit := uint(r.IntN(8))
				if !unc && p == 4 && bit >= 6 {
					bit -= 2 // see C03: the zstd content-size flag bits
				}
				b[p] ^= 1 << bit
			case 1:
				b = b[:r.IntN(len(b))]
			case 2:
				b = encode(mkData(), unc)
			case 3:
				b = []byte{}
			}
			// a flip may leave the decoded data intact: classify with the independent validator below
			write(relOf(id, unc), b)
			files = append(files, &c16File{rel: relOf(id, unc), kind: "invalid-chunk", id: id, ownFmt: true})
			c.Fault("stored-chunk-corrupted")
		case 7: // abandoned temporary file of a killed writer
			rel := filepath.Join(id[:4], fmt.Sprintf(".tmp-cacnk%09d", r.IntN(1000000000)))
			if c.ChanceAdded(1, 5, "tmp.hidden-dir") {
				rel = filepath.Join(".old", rel) // a temporary file stays one wherever it lies below the store
			}
			write(rel, encode(data, unc)[:r.IntN(len(data)+1)%(len(encode(data, unc))+1)])
			files = append(files, &c16File{rel: rel, kind: "tmp"})
			c.Fault("writer-killed-leaving-temp-file")
		case 8: // junk, incl. files with chunk-like names that are not chunks of this store
			ext := ""
			if !unc {
				ext = ".cacnk"
			}
			cands := []string{"README", filepath.Join(id[:4], "notes.txt"), filepath.Join("zz", id[:10]), id[:64] + ".bak",
				filepath.Join(wrongDir(id), id+ext),                             // wrong directory
				filepath.Join(strings.ToUpper(id[:4]), strings.ToUpper(id)+ext), // upper-case hex
				id + ext,                             // directly in the base directory
				filepath.Join(id[:4], "sub", id+ext), // nested deeper
			}
			k := r.IntN(len(cands))
			rel := cands[k]
			write(rel, []byte("not a chunk"))
			kind := "junk"
			if k >= 4 {
				kind = "misplaced-chunk-like-name"
				strays++
			}
			files = append(files, &c16File{rel: rel, kind: kind})
		case 9: // second valid chunk (more references)
			write(relOf(id, unc), encode(data, unc))
			files = append(files, &c16File{rel: relOf(id, unc), kind: "chunk", id: id, valid: true, ownFmt: true})
		}
	}
	// classify validity of own-format chunk files independently
	for _, f := range files {
		if f.kind != "invalid-chunk" {
			continue
		}
		b, _ := os.ReadFile(filepath.Join(dir, f.rel))
		if !unc {
			d, err := c08Decoder.DecodeAll(b, nil)
			if err != nil {
				continue
			}
			b = d
		}
		sum := sha512.Sum512_256(b)
		f.valid = hex.EncodeToString(sum[:]) == f.id && len(b) > 0
	}
	ls, err := desync.NewLocalStore(dir, desync.StoreOptions{Uncompressed: unc})
	if err != nil {
		c.HarnessError("%v", err)
		return
	}
	exists := func(rel string) bool { _, err := os.Lstat(filepath.Join(dir, rel)); return err == nil }
	op := c.Draw(3, "c16.op") // 0 prune, 1 verify, 2 verify+repair
	c.Class(fmt.Sprintf("op=%d unc=%v objects<=%d", op, unc, (nobj+7)/8*8))
	c.Note("op=%d uncompressed=%v objects=%d files=%d", op, unc, nobj, len(files))
	c.NonTrivial()
	switch op {
	case 0:
		keep := map[desync.ChunkID]struct{}{}
		refMode := c.Draw(4, "ref.mode") // none, all, subset, subset + absent ids
		for _, f := range files {
			if f.id == "" {
				continue
			}
			ref := refMode == 1 || (refMode >= 2 && r.IntN(2) == 0)
			if ref {
				id, _ := desync.ChunkIDFromString(f.id)
				keep[id] = struct{}{}
			}
		}
		for _, f := range files {
			if f.id != "" {
				id, _ := desync.ChunkIDFromString(f.id)
				_, f.referenced = keep[id]
			}
		}
		if refMode == 3 {
			for i := 0; i < 5; i++ {
				var id desync.ChunkID
				id[0], id[1] = byte(r.IntN(256)), byte(i)
				keep[id] = struct{}{}
			}
		}
		var perr error
		if catch(c, "LocalStore.Prune", func() { perr = ls.Prune(context.Background(), keep) }) {
			return
		}
		for _, f := range files {
			gone := !exists(f.rel)
			mustKeep := f.kind == "junk" || f.kind == "misplaced-chunk-like-name" || f.kind == "chunk-other-format" || (f.ownFmt && f.referenced)
			if mustKeep && gone {
				c.Violate("prune-deleted-too-much", "LocalStore.Prune/"+f.kind, "prune removed %s (%s, referenced=%v) which it must keep (prune error=%v)", f.rel, f.kind, f.referenced, perr)
				return
			}
			if perr == nil && !mustKeep && !gone {
				c.Violate("prune-left-garbage", "LocalStore.Prune/"+f.kind, "prune reported success but %s (%s, referenced=%v) is still there", f.rel, f.kind, f.referenced)
				return
			}
		}
		if perr != nil && strays == 0 {
			c.Violate("prune-failed", "LocalStore.Prune", "prune failed on a readable store: %v", perr)
			return
		}
	case 1, 2:
		repair := op == 2
		n := c.Range(1, 6, "verify.n")
		var out bytes.Buffer
		var verr error
		sr := c.Sim(func(rt *simrt.RT) {
			rt.MaxSteps = 200000
			rt.YieldIO = c.Bool("verify.yieldio")
			rt.Go("main", func() { verr = ls.Verify(context.Background(), n, repair, &out) })
		})
		if c.StdSimViolations(sr, "LocalStore.Verify", true) {
			return
		}
		if verr != nil {
			c.Violate("verify-failed", "LocalStore.Verify", "%v", verr)
			return
		}
		want := map[string]bool{}
		for _, f := range files {
			if f.ownFmt && !f.valid {
				want[f.id] = true
			}
		}
		got := map[string]bool{}
		for _, line := range strings.Split(out.String(), "\n") {
			// a report of an invalid chunk says that the id does not match its hash; other lines (e.g. "missing from
			// store" for a stray file with a chunk-like name) are diagnostics, not such reports
			if m := hex64.FindString(line); m != "" && strings.Contains(line, "does not match") {
				got[m] = true
			}
		}
		var missing, extra []string
		for id := range want {
			if !got[id] {
				missing = append(missing, id[:8])
			}
		}
		for id := range got {
			if !want[id] {
				extra = append(extra, id[:8])
			}
		}
		sort.Strings(missing)
		sort.Strings(extra)
		if len(missing) > 0 {
			c.Violate("verify-missed-invalid-chunk", "LocalStore.Verify", "n=%d: invalid chunks %v were not reported (output: %q)", n, missing, out.String())
			return
		}
		if len(extra) > 0 {
			c.Violate("verify-reported-valid-chunk", "LocalStore.Verify", "n=%d: chunks %v were reported but are valid or not of this store's format (output: %q)", n, extra, out.String())
			return
		}
		for _, f := range files {
			gone := !exists(f.rel)
			shouldGo := repair && f.ownFmt && !f.valid
			if shouldGo && !gone {
				c.Violate("repair-left-invalid-chunk", "LocalStore.Verify", "repair left %s in place", f.rel)
				return
			}
			if !shouldGo && gone {
				c.Violate("verify-deleted-too-much", "LocalStore.Verify/"+f.kind, "verify (repair=%v) removed %s (%s valid=%v)", repair, f.rel, f.kind, f.valid)
				return
			}
		}
	}
	c.Outcome("ok")
}

func TestC16(t *testing.T) {
	fw.Main(t, &fw.Check{ID: "C16", Level: "exploration", Run: runC16})
}
