package checks

import (
	"bytes"
	"context"
	"fmt"
	"io"
	"net/url"
	"os"
	"path/filepath"
	"testing"
	"time"

	"verif/fw"

	"github.com/folbricht/desync"
)

// ---- C03: no chunk is delivered that does not hash to the requested ID ----

type c03Env struct {
	c        *fw.Case
	dir      string // upstream store directory
	upUnc    bool   // upstream store holds uncompressed chunks
	backend  int    // 0 local, 1 http, 2 casync protocol
	srvSkip  bool   // server-side store does not verify (the client hop does)
	srvComp  bool   // http: server serves compressed chunks
	selfID   bool   // protocol: the served store labels chunks with the hash of what it holds
	stack    int
	ncache   int
	sessions []*protoSession
	s3       *s3Sim
	sftps    []*desync.SFTPStore
}

func chunkFile(dir string, id desync.ChunkID, unc bool) string {
	s := id.String()
	p := filepath.Join(dir, s[:4], s)
	if !unc {
		p += desync.CompressedChunkExt
	}
	return p
}

type failingStore struct{}

func (failingStore) GetChunk(id desync.ChunkID) (*desync.Chunk, error) { return nil, errInjected }
func (failingStore) HasChunk(id desync.ChunkID) (bool, error)          { return false, errInjected }
func (failingStore) Close() error                                      { return nil }
func (failingStore) String() string                                    { return "failing" }

func (e *c03Env) base() (desync.Store, error) {
	switch e.backend {
	case 0:
		return desync.NewLocalStore(e.dir, desync.StoreOptions{Uncompressed: e.upUnc})
	case 1:
		up, err := desync.NewLocalStore(e.dir, desync.StoreOptions{Uncompressed: e.upUnc, SkipVerify: e.srvSkip})
		if err != nil {
			return nil, err
		}
		var conv desync.Converters
		if e.srvComp {
			conv = desync.Converters{desync.Compressor{}}
		}
		h := desync.NewHTTPHandler(up, false, false, conv, "")
		u, _ := url.Parse("http://sim.invalid/")
		cl, err := desync.NewRemoteHTTPStore(u, desync.StoreOptions{Uncompressed: !e.srvComp, ErrorRetry: 0})
		if err != nil {
			return nil, err
		}
		desync.VerifSetHTTPTransport(cl.RemoteHTTPBase, &simTransport{h: h})
		return cl, nil
	case 3:
		return e.s3.store("pfx", e.upUnc)
	case 4:
		// the sftp client is stateless: one connection (child process) serves all probes of a case
		if len(e.sftps) == 0 {
			st, err := sftpStore(e.dir, 1, e.upUnc)
			if err != nil {
				return nil, err
			}
			e.sftps = append(e.sftps, st)
		}
		return noClose{e.sftps[0]}, nil
	default:
		up, err := desync.NewLocalStore(e.dir, desync.StoreOptions{Uncompressed: e.upUnc, SkipVerify: true}) // as `desync pull` configures it
		if err != nil {
			return nil, err
		}
		var served desync.Store = up
		if e.selfID {
			served = selfIDStore{up}
		}
		s, err := startProtocol(served)
		if err != nil {
			return nil, err
		}
		e.sessions = append(e.sessions, s)
		return protoStore{s}, nil
	}
}

// selfIDStore labels what it returns with the hash of the data it actually holds (a content-addressed upstream behind
// the protocol server): the reply then carries that id in its header, whatever was asked for.
type selfIDStore struct{ desync.Store }

func (s selfIDStore) GetChunk(id desync.ChunkID) (*desync.Chunk, error) {
	ch, err := s.Store.GetChunk(id)
	if err != nil {
		return nil, err
	}
	b, err := ch.Data()
	if err != nil {
		return nil, err
	}
	return desync.NewChunk(b), nil
}

func (e *c03Env) newCacheDir() string {
	e.ncache++
	d := filepath.Join(e.c.Dir(), fmt.Sprintf("cache%d", e.ncache))
	os.MkdirAll(d, 0755)
	return d
}

// build returns the store stack and, if it contains a cache, the cache's local store.
func (e *c03Env) build() (desync.Store, *desync.LocalStore, error) {
	b, err := e.base()
	if err != nil {
		return nil, nil, err
	}
	mkCache := func(up desync.Store, repair bool) (desync.Store, *desync.LocalStore, error) {
		ls, err := desync.NewLocalStore(e.newCacheDir(), desync.StoreOptions{})
		if err != nil {
			return nil, nil, err
		}
		var l desync.WriteStore = ls
		if repair {
			l = desync.NewRepairableCache(ls)
		}
		return desync.NewCache(up, l), &ls, nil
	}
	switch e.stack {
	case 0:
		return b, nil, nil
	case 1:
		return mkCache(b, false)
	case 2:
		return mkCache(b, true)
	case 3:
		empty, err := desync.NewLocalStore(e.newCacheDir(), desync.StoreOptions{})
		if err != nil {
			return nil, nil, err
		}
		return desync.NewStoreRouter(empty, b), nil, nil
	case 4:
		return desync.NewFailoverGroup(failingStore{}, b), nil, nil
	case 5:
		return desync.NewDedupQueue(b), nil, nil
	default:
		inner := desync.NewStoreRouter(desync.NewFailoverGroup(failingStore{}, b))
		cs, ls, err := mkCache(inner, e.c.Bool("full.repair"))
		if err != nil {
			return nil, nil, err
		}
		return desync.NewSwapStore(desync.NewDedupQueue(cs)), ls, nil
	}
}

func (e *c03Env) closeSessions() {
	for _, s := range e.sessions {
		s.closeAll()
	}
	e.sessions = nil
}

func (e *c03Env) closeAll() {
	e.closeSessions()
	for _, s := range e.sftps {
		s.Close()
	}
	e.sftps = nil
}

type noClose struct{ desync.Store }

func (noClose) Close() error { return nil }

func runC03(c *fw.Case) {
	if desyncBin() != "" && c.ChanceAdded(1, procRate(25), "c03.proc") {
		runC03Proc(c)
		return
	}
	e := &c03Env{c: c, dir: filepath.Join(c.Dir(), "store")}
	os.MkdirAll(e.dir, 0755)
	e.upUnc = c.Bool("up.uncompressed")
	e.backend = c.Draw(9, "backend") % 5 // local, http, protocol, s3 twice as often as sftp (a child process per probe)
	if e.backend == 4 && c.Tier == "quick" && !c.Chance(1, 4, "sftp.quick") {
		e.backend = 0
	}
	if e.backend == 3 {
		var err error
		if e.s3, err = newS3Sim(); err != nil {
			c.HarnessError("%v", err)
			return
		}
		defer e.s3.close()
	}
	e.selfID = e.backend == 2 && c.ChanceAdded(1, 2, "proto.selfid")
	e.srvSkip = c.Bool("srv.skipverify")
	e.srvComp = c.Bool("srv.compressed")
	e.stack = c.Draw(7, "stack")
	defer e.closeAll()
	var up desync.WriteStore
	var err error
	if e.backend == 3 {
		up, err = e.s3.store("pfx", e.upUnc)
	} else {
		up, err = desync.NewLocalStore(e.dir, desync.StoreOptions{Uncompressed: e.upUnc})
	}
	if err != nil {
		c.HarnessError("%v", err)
		return
	}
	// raw access to the stored object of a chunk, whatever the backend keeps it in
	s3key := func(id desync.ChunkID) string {
		k := "pfx/" + id.String()[:4] + "/" + id.String()
		if !e.upUnc {
			k += desync.CompressedChunkExt
		}
		return k
	}
	readObj := func(id desync.ChunkID) ([]byte, error) {
		if e.backend == 3 {
			e.s3.mu.Lock()
			defer e.s3.mu.Unlock()
			b, ok := e.s3.objects[s3key(id)]
			if !ok {
				return nil, os.ErrNotExist
			}
			return append([]byte(nil), b...), nil
		}
		return os.ReadFile(chunkFile(e.dir, id, e.upUnc))
	}
	writeObj := func(id desync.ChunkID, b []byte) error {
		if e.backend == 3 {
			e.s3.mu.Lock()
			e.s3.objects[s3key(id)] = append([]byte(nil), b...)
			e.s3.mu.Unlock()
			return nil
		}
		return os.WriteFile(chunkFile(e.dir, id, e.upUnc), b, 0644)
	}
	r := c.Rand("c03.data")
	mkData := func() []byte {
		n := 1 + r.IntN(300)
		if c.Chance(1, 4, "bigchunk") {
			n = 1 + r.IntN(4096)
		}
		b := make([]byte, n)
		mode := r.IntN(3)
		for i := range b {
			switch mode {
			case 0:
				b[i] = byte(r.IntN(256))
			case 1:
				b[i] = byte(r.IntN(3))
			default:
				b[i] = byte(i / 7)
			}
		}
		return b
	}
	tData, oData := mkData(), mkData()
	tChunk, oChunk := desync.NewChunk(tData), desync.NewChunk(oData)
	if err := up.StoreChunk(tChunk); err != nil {
		c.HarnessError("%v", err)
		return
	}
	if err := up.StoreChunk(oChunk); err != nil {
		c.HarnessError("%v", err)
		return
	}
	tid := tChunk.ID()
	good, err := readObj(tid)
	if err != nil {
		c.HarnessError("%v", err)
		return
	}
	other, _ := readObj(oChunk.ID())
	names := []string{"local", "http", "protocol", "s3", "sftp"}
	c.Class(fmt.Sprintf("%s upUnc=%v srvComp=%v srvSkip=%v stack=%d", names[e.backend], e.upUnc, e.srvComp, e.srvSkip, e.stack))
	c.Note("backend=%s upstream-uncompressed=%v server-compressed=%v server-skipverify=%v stack=%d chunk=%d bytes stored=%d bytes", names[e.backend], e.upUnc, e.srvComp, e.srvSkip, e.stack, len(tData), len(good))

	site := names[e.backend]
	// probe: fetch through a fresh stack and judge the result
	probe := func(what string) bool {
		s, _, err := e.build()
		if err != nil {
			c.HarnessError("build: %v", err)
			return false
		}
		defer e.closeSessions()
		var ch *desync.Chunk
		var gerr error
		t0 := time.Now()
		if catch(c, "GetChunk", func() { ch, gerr = s.GetChunk(tid) }) {
			return false
		}
		if d := time.Since(t0); d > 200*time.Millisecond {
			c.Probe("slow-fetch")
			if os.Getenv("VERIF_DEBUG") != "" {
				fmt.Fprintf(os.Stderr, "SLOW %v: %s err=%v\n", d, what, gerr)
			}
		}
		c.SubEval(1)
		if gerr != nil {
			c.Probe("rejected")
			return true
		}
		b, derr := ch.Data()
		if derr != nil {
			c.Probe("rejected-at-data")
			return true
		}
		if desync.Digest.Sum(b) != tid {
			c.Violate("corrupt-chunk-delivered", site, "stack %d: stored object %s; GetChunk returned %d bytes that do not hash to the requested ID without an error", e.stack, what, len(b))
			return false
		}
		c.Probe("still-valid")
		return true
	}
	// sanity: the intact object must be delivered
	{
		s, _, err := e.build()
		if err != nil {
			c.HarnessError("build: %v", err)
			return
		}
		ch, gerr := s.GetChunk(tid)
		// a second chunk fetched through the same stack (same pooled connection, same buffers) while the first is
		// still held by the caller
		ch2, gerr2 := s.GetChunk(oChunk.ID())
		e.closeSessions()
		if gerr != nil {
			c.Violate("intact-chunk-refused", site, "the intact chunk cannot be fetched: %v", gerr)
			return
		}
		if b, _ := ch.Data(); !bytes.Equal(b, tData) {
			if gerr2 == nil && desync.Digest.Sum(b) != tid {
				c.Violate("corrupt-chunk-delivered", site+"/held-chunk", "stack %d: a chunk the caller still holds no longer hashes to its ID after the next chunk was fetched through the same store (%d bytes, now equal to the other chunk: %v)", e.stack, len(b), bytes.Equal(b, oData))
				return
			}
			c.Violate("intact-chunk-altered", site, "the intact chunk arrives altered")
			return
		}
		if gerr2 == nil {
			if b2, _ := ch2.Data(); !bytes.Equal(b2, oData) {
				c.Violate("intact-chunk-altered", site, "the second intact chunk arrives altered")
				return
			}
		}
	}
	write := func(b []byte) bool {
		if err := writeObj(tid, b); err != nil {
			c.HarnessError("%v", err)
			return false
		}
		return true
	}
	// corruption classes
	exhaustive := len(good) <= 512
	var positions, lengths []int
	if exhaustive {
		for i := range good {
			positions = append(positions, i)
			lengths = append(lengths, i)
		}
	} else {
		for i := 0; i < 64; i++ {
			positions = append(positions, r.IntN(len(good)))
			lengths = append(lengths, r.IntN(len(good)))
		}
	}
	buf := make([]byte, len(good))
	for _, p := range positions {
		copy(buf, good)
		bit := uint(r.IntN(8))
		if !e.upUnc && p == 4 && bit >= 6 {
			// bits 6-7 of the zstd frame header descriptor select the width of the
			// content-size field; flipping them makes the klauspost decoder allocate
			// up to 64 GiB before it rejects the frame (seconds per probe, see DESIGN.md)
			bit -= 2
		}
		buf[p] ^= byte(1 << bit)
		c.Fault("bit-flip")
		if !write(buf) || !probe(fmt.Sprintf("bit flipped in byte %d of %d", p, len(good))) {
			return
		}
	}
	for _, l := range lengths {
		c.Fault("truncation")
		if !write(good[:l]) || !probe(fmt.Sprintf("truncated to %d of %d bytes", l, len(good))) {
			return
		}
	}
	otherZstd, _ := desync.Compress(oData)
	tZstd, _ := desync.Compress(tData)
	junk := make([]byte, 1+r.IntN(600))
	for i := range junk {
		junk[i] = byte(r.IntN(256))
	}
	variants := []struct {
		what string
		b    []byte
	}{
		{"replaced by another chunk's valid object", other},
		{"replaced by a valid zstd frame of other data", otherZstd},
		{"replaced by the raw bytes of another chunk", oData},
		{"replaced by its own data in the other format (raw<->compressed)", map[bool][]byte{true: tZstd, false: tData}[e.upUnc]},
		{"replaced by garbage", junk},
		{"followed by a second valid frame/extra bytes", append(append([]byte(nil), good...), other...)},
		{"followed by junk", append(append([]byte(nil), good...), junk...)},
		{"prefixed by junk", append(append([]byte(nil), junk...), good...)},
	}
	for _, v := range variants {
		c.Fault("object-replaced")
		if !write(v.b) || !probe(v.what) {
			return
		}
	}
	// a corrupted entry in the cache (upstream intact): repair must heal it, plain cache must refuse it
	if e.stack == 1 || e.stack == 2 || e.stack == 6 {
		write(good)
		s, ls, err := e.build()
		if err == nil && ls != nil {
			if _, gerr := s.GetChunk(tid); gerr == nil { // fills the cache
				cf := chunkFile(ls.Base, tid, false)
				if cb, rerr := os.ReadFile(cf); rerr == nil && len(cb) > 0 {
					cp := r.IntN(len(cb))
					if cp == 4 {
						cp = 5
					}
					if cp < len(cb) {
						cb[cp] ^= 0x10
					}
					os.WriteFile(cf, cb, 0644)
					c.Fault("cache-entry-corrupted")
					ch, gerr := s.GetChunk(tid)
					c.SubEval(1)
					if gerr == nil {
						if b, derr := ch.Data(); derr == nil && desync.Digest.Sum(b) != tid {
							c.Violate("corrupt-chunk-delivered", site+"/cache-entry", "a corrupted cache entry was delivered as good data")
							return
						}
					}
				}
			}
		}
		e.closeSessions()
	}
	// pipelines over a poisoned store: error or exactly the blob
	{
		sz := sizes{64, 256, 1024}
		blob := genBlob(c, sz, 8*1024)
		idx := mkIndex(blob, sz)
		if len(idx.Chunks) > 0 {
			for _, chk := range idx.Chunks {
				if err := up.StoreChunk(desync.NewChunk(blob[chk.Start : chk.Start+chk.Size])); err != nil {
					c.HarnessError("%v", err)
					return
				}
			}
			victim := idx.Chunks[c.Draw(len(idx.Chunks), "victim")]
			vb, _ := readObj(victim.ID)
			switch c.Draw(4, "poison") {
			case 0:
				if len(vb) > 0 {
					vb[r.IntN(len(vb))] ^= 0x04 // bit 2: never the content-size flag of a zstd header
				}
			case 1:
				vb = vb[:len(vb)/2]
			case 2:
				vb = other
			case 3:
				if e.upUnc {
					vb = oData
				} else {
					vb = otherZstd
				}
			}
			writeObj(victim.ID, vb)
			c.Fault("pipeline-store-poisoned")
			s, _, err := e.build()
			if err != nil {
				c.HarnessError("build: %v", err)
				return
			}
			if c.Bool("pipeline.assemble") {
				target := filepath.Join(c.Dir(), "out")
				var aerr error
				if catch(c, "AssembleFile", func() {
					_, aerr = desync.AssembleFile(context.Background(), target, idx, s, nil, desync.AssembleOptions{N: 1 + c.Draw(3, "pipe.n")})
				}) {
					return
				}
				c.SubEval(1)
				if aerr == nil {
					got, _ := os.ReadFile(target)
					if !bytes.Equal(got, blob) {
						c.Violate("pipeline-emitted-wrong-bytes", "AssembleFile/"+site, "extract over a poisoned store returned nil and produced bytes that differ from the blob")
						return
					}
				}
			} else {
				var got []byte
				var rerr error
				if catch(c, "IndexPos", func() {
					got, rerr = io.ReadAll(desync.NewIndexReadSeeker(idx, s))
				}) {
					return
				}
				c.SubEval(1)
				if rerr == nil && !bytes.Equal(got, blob) {
					c.Violate("pipeline-emitted-wrong-bytes", "IndexPos/"+site, "cat over a poisoned store returned %d bytes that differ from the blob without an error", len(got))
					return
				}
				if rerr != nil && !bytes.HasPrefix(blob, got) {
					c.Violate("pipeline-emitted-wrong-bytes", "IndexPos/"+site, "cat over a poisoned store emitted wrong bytes before failing")
					return
				}
			}
			e.closeSessions()
		}
	}
	c.Key(exhaustive)
	c.Outcome("ok")
}

func TestC03(t *testing.T) {
	fw.Main(t, &fw.Check{ID: "C03", Level: "fault_enumeration", Run: runC03})
}
