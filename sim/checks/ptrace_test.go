//go:build linux && amd64

package checks

import (
	"fmt"
	"os"
	"os/exec"
	"runtime"
	"strings"
	"syscall"
	"time"
)

// ---- process death at system-call granularity for the real binary ----
//
// runTraced starts the desync binary as a ptrace tracee of this process and watches every system call of every thread.
// The calls that change the file system (create, write to a file below the case directory, truncate, rename, unlink,
// chmod, ...) are counted in arrival order; when the k-th of them is about to be executed the whole process gets
// SIGKILL, so the call itself never happens: "the process died between step k-1 and step k". k == 0 only counts.

type tracedRun struct {
	points   []string // the file-system calls seen, in order ("renameat", "pwrite64", ...)
	killedAt string   // name of the call the process died in front of ("" if it ran to its end)
	exit     int
	signaled bool
	timeout  bool
}

var fsSyscalls = map[uint64]string{
	1: "write", 18: "pwrite64", 20: "writev", 296: "pwritev", 76: "truncate", 77: "ftruncate", 82: "rename", 264: "renameat",
	316: "renameat2", 87: "unlink", 263: "unlinkat", 83: "mkdir", 258: "mkdirat", 84: "rmdir", 90: "chmod", 91: "fchmod",
	268: "fchmodat", 92: "chown", 93: "fchown", 94: "lchown", 260: "fchownat", 74: "fsync", 75: "fdatasync", 86: "link",
	265: "linkat", 88: "symlink", 266: "symlinkat", 85: "creat", 280: "utimensat", 285: "fallocate", 326: "copy_file_range",
	188: "setxattr", 189: "lsetxattr", 190: "fsetxattr", 133: "mknod", 259: "mknodat",
}

// sysFault makes the k-th file-system call fail instead of killing the process: the call is not executed and returns
// -errno. With sticky set, every later call of the same class fails the same way (the disk stays full).
type sysFault struct {
	errno  syscall.Errno
	sticky bool
}

// spaceCall reports whether a call needs free space (fails with ENOSPC on a full disk).
func spaceCall(name string) bool {
	switch name {
	case "write", "pwrite64", "writev", "pwritev", "open(O_CREAT|O_TRUNC)", "openat(O_CREAT|O_TRUNC)", "creat", "mkdir", "mkdirat",
		"ftruncate", "truncate", "fallocate", "link", "linkat", "symlink", "symlinkat", "mknod", "mknodat", "copy_file_range", "ioctl(FICLONE)",
		"setxattr", "lsetxattr", "fsetxattr", "fsync", "fdatasync":
		return true
	}
	return false
}

func runTraced(k int, dir string, limit time.Duration, args ...string) (*tracedRun, error) {
	return runTracedFault(k, nil, dir, limit, args...)
}

func runTracedFault(k int, fault *sysFault, dir string, limit time.Duration, args ...string) (*tracedRun, error) {
	runtime.LockOSThread()
	defer runtime.UnlockOSThread()
	devnull, err := os.OpenFile(os.DevNull, os.O_RDWR, 0)
	if err != nil {
		return nil, err
	}
	defer devnull.Close()
	cmd := exec.Command(desyncBin(), args...)
	cmd.Stdin, cmd.Stdout, cmd.Stderr = devnull, devnull, devnull
	cmd.Env = append(os.Environ(), "HOME=/nonexistent-verif-home")
	cmd.SysProcAttr = &syscall.SysProcAttr{Ptrace: true}
	if err := cmd.Start(); err != nil {
		return nil, err
	}
	pid := cmd.Process.Pid
	defer cmd.Process.Release()
	res := &tracedRun{}
	var ws syscall.WaitStatus
	if _, err := syscall.Wait4(pid, &ws, 0, nil); err != nil || !ws.Stopped() {
		syscall.Kill(pid, syscall.SIGKILL)
		return nil, fmt.Errorf("tracee did not stop at exec: %v %v", err, ws)
	}
	const opts = syscall.PTRACE_O_TRACESYSGOOD | syscall.PTRACE_O_TRACECLONE | syscall.PTRACE_O_TRACEFORK | syscall.PTRACE_O_TRACEVFORK | 0x100000 // EXITKILL
	if err := syscall.PtraceSetOptions(pid, opts); err != nil {
		syscall.Kill(pid, syscall.SIGKILL)
		return nil, fmt.Errorf("PTRACE_SETOPTIONS: %v", err)
	}
	if err := syscall.PtraceSyscall(pid, 0); err != nil {
		syscall.Kill(pid, syscall.SIGKILL)
		return nil, err
	}
	watchdog := time.AfterFunc(limit, func() { res.timeout = true; syscall.Kill(pid, syscall.SIGKILL) })
	defer watchdog.Stop()
	inSys := map[int]bool{}
	known := map[int]bool{pid: true}
	killed := false
	failing := map[int]bool{} // tid -> the call it is in was replaced, patch its result at the exit stop
	tripped := false
	for {
		wpid, err := syscall.Wait4(-1, &ws, syscall.WALL, nil)
		if err == syscall.EINTR {
			continue
		}
		if err != nil {
			return nil, fmt.Errorf("wait4: %v", err)
		}
		if ws.Exited() || ws.Signaled() {
			if wpid == pid {
				res.exit, res.signaled = ws.ExitStatus(), ws.Signaled()
				return res, nil
			}
			continue // a thread of the tracee, or an unrelated child of this process
		}
		if !ws.Stopped() {
			continue
		}
		sig := ws.StopSignal()
		deliver := 0
		switch {
		case sig == syscall.SIGTRAP|0x80: // system call stop
			inSys[wpid] = !inSys[wpid]
			if !inSys[wpid] && failing[wpid] {
				delete(failing, wpid)
				var regs syscall.PtraceRegs
				if syscall.PtraceGetRegs(wpid, &regs) == nil {
					regs.Rax = uint64(-int64(fault.errno))
					syscall.PtraceSetRegs(wpid, &regs)
				}
			}
			if inSys[wpid] && !killed {
				var regs syscall.PtraceRegs
				if syscall.PtraceGetRegs(wpid, &regs) == nil {
					if name := fsCall(wpid, &regs, dir); name != "" {
						res.points = append(res.points, name)
						hit := k > 0 && len(res.points) == k
						switch {
						case hit && fault == nil:
							res.killedAt = name
							killed = true
							syscall.Kill(pid, syscall.SIGKILL)
						case fault != nil && (hit || (tripped && fault.sticky && spaceCall(name))):
							if hit {
								res.killedAt, tripped = name, true
							}
							regs.Orig_rax = ^uint64(0) // no such call: the kernel skips it
							if syscall.PtraceSetRegs(wpid, &regs) == nil {
								failing[wpid] = true
							}
						}
					}
				}
			}
		case sig == syscall.SIGTRAP && ws.TrapCause() > 0: // clone/fork event of a tracee
		case sig == syscall.SIGSTOP && !known[wpid]: // first stop of a new thread
			known[wpid] = true
		case sig == syscall.SIGTRAP: // exec
		default:
			deliver = int(sig)
		}
		known[wpid] = true
		syscall.PtraceSyscall(wpid, deliver) // fails with ESRCH once the tracee is dying: fine
	}
}

// fsCall names the call if it changes the file system. Writes count only when the descriptor is a file below dir
// (not the terminal, a pipe or a socket); open counts when it creates or truncates.
func fsCall(tid int, r *syscall.PtraceRegs, dir string) string {
	nr := r.Orig_rax
	switch nr {
	case 2: // open(path, flags)
		if r.Rsi&(syscall.O_CREAT|syscall.O_TRUNC) != 0 {
			return "open(O_CREAT|O_TRUNC)"
		}
		return ""
	case 257: // openat(dirfd, path, flags)
		if r.Rdx&(syscall.O_CREAT|syscall.O_TRUNC) != 0 {
			return "openat(O_CREAT|O_TRUNC)"
		}
		return ""
	case 16: // ioctl(fd, FICLONE / FICLONERANGE)
		if r.Rsi == 0x40049409 || r.Rsi == 0x4020940d {
			return "ioctl(FICLONE)"
		}
		return ""
	}
	name, ok := fsSyscalls[nr]
	if !ok {
		return ""
	}
	switch nr {
	case 1, 18, 20, 296:
		l, err := os.Readlink(fmt.Sprintf("/proc/%d/fd/%d", tid, r.Rdi))
		if err != nil || !strings.HasPrefix(l, dir+"/") {
			return ""
		}
	}
	return name
}
