package checks

import (
	"bytes"
	"context"
	"fmt"
	"os"
	"path/filepath"
	"testing"

	"verif/fw"
	"verif/simrt"

	"github.com/folbricht/desync"
)

// ---- C17: verify-index accepts a file iff it matches the index ----

func runC17(c *fw.Case) {
	if desyncBin() != "" && c.ChanceAdded(1, procRate(12), "c17.proc") {
		runC17Proc(c)
		return
	}
	sz := c09Sizes[c.Draw(len(c09Sizes), "c17.sizes")]
	big := c.Chance(1, 3, "c17.big")
	limit := 30 * int(sz.max)
	if big {
		limit = 400 * int(sz.min)
	}
	blob := genBlob(c, sz, limit)
	// runs of different constant bytes give equal-size (max) chunks with different IDs
	if c.Bool("c17.const") {
		r := c.Rand("const.seed")
		for i, k := 0, c.Range(2, 4, "const.runs"); i < k; i++ {
			blob = append(blob, bytes.Repeat([]byte{byte(1 + r.IntN(250))}, 2*int(sz.max))...)
			blob = append(blob, byte(r.IntN(256)))
		}
	}
	if c.ChanceAdded(1, 12, "c17.emptyblob") {
		blob = nil // an index without chunks: only the empty file matches it
	}
	idx := mkIndex(blob, sz)
	nchunks := len(idx.Chunks)
	n := 1
	switch c.Draw(3, "n.kind") {
	case 0:
		n = c.Range(1, 4, "n")
	case 1:
		n = c.Range(1, 64, "n")
	case 2:
		if nchunks >= 10 {
			n = c.Range(1, nchunks/10+1, "n") // batch size >= 1
		}
	}
	batch := nchunks / (n * 10)
	file := filepath.Join(c.Dir(), "blob")
	c.Note("sizes=%v blob(%s) chunks=%d n=%d (batch+1=%d)", sz, describeBlob(blob), nchunks, n, batch+1)
	c.Class(fmt.Sprintf("sizes=%d/%d n=%d batch=%d", sz.min, sz.max, n, batch))
	verify := func(data []byte, what string, wantOK bool) bool {
		if err := os.WriteFile(file, data, 0644); err != nil {
			c.HarnessError("%v", err)
			return false
		}
		var err error
		sr := c.Sim(func(rt *simrt.RT) {
			rt.MaxSteps = 400000
			rt.Go("main", func() {
				err = desync.VerifyIndex(context.Background(), file, idx, n, desync.NullProgressBar{})
			})
		})
		c.SubEval(1)
		if c.StdSimViolations(sr, "VerifyIndex", true) {
			return false
		}
		if wantOK && err != nil {
			c.Violate("intact-file-rejected", "VerifyIndex", "n=%d chunks=%d: the file matches the index but VerifyIndex failed: %v", n, nchunks, err)
			return false
		}
		if !wantOK && err == nil {
			c.Violate("damaged-file-accepted", "VerifyIndex/"+what[:bytes.IndexByte(append([]byte(what), ' '), ' ')], "n=%d chunks=%d batch=%d: %s, yet VerifyIndex returned nil", n, nchunks, batch+1, what)
			return false
		}
		return true
	}
	if !verify(blob, "intact", true) {
		return
	}
	if len(blob) == 0 {
		// only extension applies
		c.Fault("extension")
		if verify([]byte{0}, "extended by 1 byte", false) {
			c.Outcome("ok")
		}
		return
	}
	// single byte changes
	var positions []int
	if len(blob) <= 1500 && !big {
		for p := range blob {
			positions = append(positions, p)
		}
	} else {
		for i := 0; i < 24; i++ {
			switch c.Draw(5, "pos.kind") {
			case 0: // first chunk
				ch := idx.Chunks[0]
				positions = append(positions, int(ch.Start)+c.Draw(int(ch.Size), "pos"))
			case 1: // last chunk
				ch := idx.Chunks[nchunks-1]
				positions = append(positions, int(ch.Start)+c.Draw(int(ch.Size), "pos"))
			case 2: // a batch boundary chunk
				k := c.Draw(nchunks, "pos.chunk") / (batch + 1) * (batch + 1)
				if c.Bool("pos.before") && k > 0 {
					k--
				}
				ch := idx.Chunks[k]
				if c.Bool("pos.edge") {
					positions = append(positions, int(ch.Start))
				} else {
					positions = append(positions, int(ch.Start+ch.Size)-1)
				}
			default:
				positions = append(positions, c.Draw(len(blob), "pos"))
			}
		}
	}
	data := make([]byte, len(blob))
	for _, p := range positions {
		copy(data, blob)
		data[p] ^= byte(1 << (p % 8))
		c.Fault("byte-flip")
		if !verify(data, fmt.Sprintf("byte %d of %d changed", p, len(blob)), false) {
			return
		}
	}
	// truncation / extension by any amount
	for i := 0; i < 4; i++ {
		cut := 1 + c.Draw(len(blob), "cut")
		if i == 0 {
			cut = 1
		}
		c.Fault("truncation")
		if !verify(blob[:len(blob)-cut], fmt.Sprintf("truncated by %d bytes", cut), false) {
			return
		}
		ext := 1 + c.Draw(2*int(sz.max), "ext")
		if i == 0 {
			ext = 1
		}
		c.Fault("extension")
		pad := make([]byte, ext)
		if c.Bool("ext.copy") && len(blob) >= ext {
			copy(pad, blob[len(blob)-ext:])
		}
		if !verify(append(append([]byte(nil), blob...), pad...), fmt.Sprintf("extended by %d bytes", ext), false) {
			return
		}
	}
	// two equal-size chunks with different content swapped
	for i := 0; i < nchunks; i++ {
		for j := i + 1; j < nchunks; j++ {
			a, b := idx.Chunks[i], idx.Chunks[j]
			if a.Size == b.Size && a.ID != b.ID {
				copy(data, blob)
				copy(data[a.Start:a.Start+a.Size], blob[b.Start:b.Start+b.Size])
				copy(data[b.Start:b.Start+b.Size], blob[a.Start:a.Start+a.Size])
				c.Fault("chunk-swap")
				if !verify(data, fmt.Sprintf("swapped chunks %d and %d (same size)", i, j), false) {
					return
				}
				i = nchunks
				break
			}
		}
	}
	c.Outcome("ok")
}

func TestC17(t *testing.T) {
	fw.Main(t, &fw.Check{ID: "C17", Level: "fault_enumeration", Run: runC17})
}
