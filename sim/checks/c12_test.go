package checks

import (
	"fmt"
	"testing"

	"verif/fw"
	"verif/simrt"

	"github.com/folbricht/desync"
)

// ---- C12: request de-duplication is safe under every interleaving ----

type c12Up struct { // one upstream call
	kind     string // get | has | store
	id       int
	inv, ret int
	leader   *c12Op
	chunk    *desync.Chunk
	b        bool
	err      error
}

type c12Op struct { // one caller operation through the queue
	task     string
	kind     string
	id       int
	inv, ret int
	done     bool
	chunk    *desync.Chunk // result of get / argument of store
	b        bool
	err      error
}

type c12Store struct {
	c    *fw.Case
	rt   *simrt.RT
	seq  *int
	ids  []desync.ChunkID
	ups  []*c12Up
	cur  map[string]*c12Op // task id -> op in progress
	ntok int
}

func (s *c12Store) idx(id desync.ChunkID) int {
	for i, x := range s.ids {
		if x == id {
			return i
		}
	}
	return -1
}

func (s *c12Store) call(kind string, id desync.ChunkID) *c12Up {
	*s.seq++
	u := &c12Up{kind: kind, id: s.idx(id), inv: *s.seq, leader: s.cur[s.rt.TaskID()]}
	s.ups = append(s.ups, u)
	// the upstream call is slow: a tape-chosen number of scheduling points,
	// optionally a simulated delay
	n := 1 + s.c.Draw(3, "up.yields")
	for i := 0; i < n; i++ {
		s.rt.Yield("upstream." + kind)
	}
	if s.c.Draw(6, "up.sleep") == 0 {
		s.rt.Sleep(50e6, "upstream.sleep")
		s.c.Fault("upstream-latency")
	}
	return u
}

func (s *c12Store) GetChunk(id desync.ChunkID) (*desync.Chunk, error) {
	u := s.call("get", id)
	s.ntok++
	switch s.c.Draw(4, "up.get.outcome") {
	case 0:
		u.err = desync.ChunkMissing{ID: id}
		s.c.Fault("upstream-missing")
	case 1:
		u.err = fmt.Errorf("upstream failure #%d", s.ntok)
		s.c.Fault("upstream-error")
	default:
		u.chunk, _ = desync.NewChunkWithID(id, []byte(fmt.Sprintf("token-%d", s.ntok)), true)
	}
	*s.seq++
	u.ret = *s.seq
	return u.chunk, u.err
}

func (s *c12Store) HasChunk(id desync.ChunkID) (bool, error) {
	u := s.call("has", id)
	s.ntok++
	switch s.c.Draw(3, "up.has.outcome") {
	case 0:
		u.b = true
	case 1:
		u.b = false
	default:
		u.err = fmt.Errorf("upstream failure #%d", s.ntok)
		s.c.Fault("upstream-error")
	}
	*s.seq++
	u.ret = *s.seq
	return u.b, u.err
}

func (s *c12Store) StoreChunk(ch *desync.Chunk) error {
	u := s.call("store", ch.ID())
	u.chunk = ch
	s.ntok++
	if s.c.Draw(3, "up.store.outcome") == 0 {
		u.err = fmt.Errorf("upstream failure #%d", s.ntok)
		s.c.Fault("upstream-error")
	}
	*s.seq++
	u.ret = *s.seq
	return u.err
}
func (s *c12Store) Close() error   { return nil }
func (s *c12Store) String() string { return "c12-upstream" }

func runC12(c *fw.Case) {
	ncall := c.Range(2, 6, "callers")
	nids := c.Range(1, 3, "ids")
	write := c.Bool("writequeue")
	c.Class(fmt.Sprintf("callers=%d ids=%d write=%v", ncall, nids, write))
	ids := make([]desync.ChunkID, nids)
	for i := range ids {
		ids[i] = desync.ChunkID{byte(i + 1)}
	}
	type plan struct {
		kind string
		id   int
	}
	plans := make([][]plan, ncall)
	for i := range plans {
		n := c.Range(1, 3, "ops")
		for j := 0; j < n; j++ {
			k := c.Draw(3, "kind")
			kind := []string{"get", "has", "store"}[k]
			if !write && kind == "store" {
				kind = "get"
			}
			plans[i] = append(plans[i], plan{kind, c.Draw(nids, "id")})
		}
	}
	c.Note("plans=%v", plans)
	seq := 0
	var ops []*c12Op
	var up *c12Store
	sr := c.Sim(func(rt *simrt.RT) {
		up = &c12Store{c: c, rt: rt, seq: &seq, ids: ids, cur: map[string]*c12Op{}}
		var rq desync.Store
		var wq *desync.WriteDedupQueue
		if write {
			wq = desync.NewWriteDedupQueue(up)
			rq = wq
		} else {
			rq = desync.NewDedupQueue(up)
		}
		rt.MaxSteps = 5000
		for i := range plans {
			name := fmt.Sprintf("caller%d", i)
			pl := plans[i]
			rt.Go(name, func() {
				for _, p := range pl {
					seq++
					op := &c12Op{task: name, kind: p.kind, id: p.id, inv: seq}
					ops = append(ops, op)
					up.cur[name] = op
					switch p.kind {
					case "get":
						op.chunk, op.err = rq.GetChunk(ids[p.id])
					case "has":
						op.b, op.err = rq.HasChunk(ids[p.id])
					case "store":
						op.chunk, _ = desync.NewChunkWithID(ids[p.id], []byte("stored-data"), true)
						op.err = wq.StoreChunk(op.chunk)
					}
					seq++
					op.ret = seq
					op.done = true
					delete(up.cur, name)
					rt.Yield("caller.next")
				}
			})
		}
	})
	c.Key(len(up.ups))
	if c.StdSimViolations(sr, "DedupQueue", true) {
		return
	}
	// (1) every caller returned
	for _, op := range ops {
		if !op.done {
			c.Violate("caller-never-returned", op.kind, "op %+v never returned", *op)
			return
		}
	}
	// (3) at most one upstream request per (id, kind) in flight
	for i, a := range up.ups {
		for _, b := range up.ups[i+1:] {
			if a.kind == b.kind && a.id == b.id && a.inv < b.ret && b.inv < a.ret {
				c.Violate("concurrent-upstream", a.kind, "two upstream %s calls for id %d overlap: [%d,%d] and [%d,%d]", a.kind, a.id, a.inv, a.ret, b.inv, b.ret)
				return
			}
		}
	}
	// (2)+(4) each result is the result of an upstream call whose leader's queue call had not returned when this caller was invoked
	for _, op := range ops {
		ok := false
		for _, u := range up.ups {
			if u.id != op.id || u.leader == nil {
				continue
			}
			match := false
			switch op.kind {
			case "get":
				if u.kind == "get" {
					match = op.chunk == u.chunk && op.err == u.err
				} else if u.kind == "store" && write {
					// read served from an in-flight write: the chunk being stored
					match = op.chunk == u.chunk && op.err == u.err
				}
			case "has":
				match = u.kind == "has" && op.b == u.b && op.err == u.err
			case "store":
				match = u.kind == "store" && op.err == u.err
			}
			if match && u.leader.ret > op.inv && u.inv < op.ret {
				ok = true
				break
			}
		}
		if !ok {
			c.Violate("unattributable-result", op.kind, "op %s(id %d) [%d,%d] by %s returned (chunk=%p b=%v err=%v) which is not the result of any upstream call in flight during it", op.kind, op.id, op.inv, op.ret, op.task, op.chunk, op.b, op.err)
			return
		}
	}
	// (5) a read that ran entirely while an upstream store of that id was in flight must have waited for it
	if write {
		for _, op := range ops {
			if op.kind != "get" {
				continue
			}
			for _, u := range up.ups {
				if u.kind == "store" && u.id == op.id && u.inv < op.inv && op.ret < u.ret {
					c.Violate("read-bypassed-inflight-write", "get", "get(id %d) [%d,%d] completed inside upstream store [%d,%d]", op.id, op.inv, op.ret, u.inv, u.ret)
					return
				}
			}
		}
	}
	c.Outcome("ok")
}

func TestC12(t *testing.T) {
	fw.Main(t, &fw.Check{ID: "C12", Level: "exploration", Run: runC12})
}
