package checks

import (
	"bytes"
	"fmt"
	"os"
	"path/filepath"
	"sort"
	"strings"
	"syscall"
	"time"

	"verif/fw"

	"github.com/pkg/xattr"
)

// ---- random directory trees (created as root on tmpfs) and their snapshots ----

type treeEntry struct {
	Path    string
	Type    string // dir file symlink char block
	Mode    uint32 // permission + setuid/setgid/sticky bits (st_mode & 07777)
	UID     uint32
	GID     uint32
	Rdev    uint64
	Target  string
	Xattrs  map[string]string
	Content []byte
	MtimeNs int64
}

func genName(c *fw.Case, r interface{ IntN(int) int }) string {
	switch c.Draw(6, "name.kind") {
	case 0:
		return fmt.Sprintf("f%d", r.IntN(1000))
	case 1:
		return fmt.Sprintf(".hidden %d", r.IntN(100))
	case 2: // arbitrary bytes except '/' and NUL
		n := 1 + r.IntN(40)
		b := make([]byte, n)
		for i := range b {
			x := byte(1 + r.IntN(255))
			if x == '/' {
				x = '_'
			}
			b[i] = x
		}
		if string(b) == "." || string(b) == ".." {
			return "dots"
		}
		return string(b)
	case 3:
		return strings.Repeat("long", 1+r.IntN(50)) + fmt.Sprint(r.IntN(1000))
	case 4:
		return fmt.Sprintf("sp ace\n%d\t\xc3\xa9", r.IntN(1000))
	default:
		return fmt.Sprintf("%c%d", 'a'+rune(r.IntN(26)), r.IntN(100))
	}
}

// genTree creates a random tree under root and returns the number of entries.
func genTree(c *fw.Case, root string, maxEntries int) (int, error) {
	r := c.Rand("tree.seed")
	if err := os.Mkdir(root, 0755); err != nil {
		return 0, err
	}
	count := 0
	randTime := func() time.Time {
		switch r.IntN(4) {
		case 0:
			return time.Unix(int64(r.IntN(2000000000)), int64(r.IntN(1000000000)))
		case 1:
			return time.Unix(int64(1+r.IntN(100000)), 0)
		case 2:
			return time.Unix(1600000000+int64(r.IntN(100000000)), int64(r.IntN(1000))*1000000)
		}
		return time.Unix(int64(1+r.IntN(2000000000)), int64(1+r.IntN(999999999)))
	}
	setMeta := func(p string, noXattr bool) error {
		isSymlink := false
		if st, err := os.Lstat(p); err == nil && st.Mode()&os.ModeSymlink != 0 {
			isSymlink = true
		}
		if err := os.Lchown(p, r.IntN(70000), r.IntN(70000)); err != nil {
			return err
		}
		if !isSymlink {
			mode := uint32(r.IntN(01000))
			if r.IntN(4) == 0 {
				mode |= uint32(r.IntN(8)) << 9 // setuid/setgid/sticky
			}
			if err := syscall.Chmod(p, mode); err != nil {
				return err
			}
			for i, n := 0, r.IntN(3); i < n && !noXattr; i++ {
				v := make([]byte, r.IntN(40))
				for j := range v {
					v[j] = byte(r.IntN(256))
				}
				if err := xattr.LSet(p, fmt.Sprintf("user.k%d", r.IntN(50)), v); err != nil {
					return err
				}
			}
		}
		return nil
	}
	type pending struct {
		path string
		mt   time.Time
		sym  bool
	}
	var times []pending
	var build func(dir string, depth int) error
	build = func(dir string, depth int) error {
		n := c.Draw(7, "dir.entries")
		used := map[string]bool{}
		for i := 0; i < n && count < maxEntries; i++ {
			name := genName(c, r)
			if used[name] {
				continue
			}
			used[name] = true
			p := filepath.Join(dir, name)
			count++
			switch c.Draw(8, "entry.kind") {
			case 0, 1: // directory
				if err := os.Mkdir(p, 0755); err != nil {
					return err
				}
				if depth < 4 {
					if err := build(p, depth+1); err != nil {
						return err
					}
				}
				if err := setMeta(p, false); err != nil {
					return err
				}
				times = append(times, pending{p, randTime(), false})
			case 2, 3, 4: // regular file
				size := 0
				switch r.IntN(4) {
				case 1:
					size = r.IntN(300)
				case 2:
					size = r.IntN(5000)
				case 3:
					size = r.IntN(16384)
				}
				b := make([]byte, size)
				mode := r.IntN(3)
				for j := range b {
					switch mode {
					case 0:
						b[j] = byte(r.IntN(256))
					case 1:
						b[j] = 0
					default:
						b[j] = byte(j / 13)
					}
				}
				if err := os.WriteFile(p, b, 0644); err != nil {
					return err
				}
				if err := setMeta(p, false); err != nil {
					return err
				}
				times = append(times, pending{p, randTime(), false})
			case 5: // symlink
				targets := []string{"/etc/passwd", "../..", "nowhere", name, strings.Repeat("t/", r.IntN(30)) + "x", "\xff\xfe target"}
				if err := os.Symlink(targets[r.IntN(len(targets))], p); err != nil {
					return err
				}
				if err := setMeta(p, true); err != nil {
					return err
				}
				times = append(times, pending{p, randTime(), true})
			case 6, 7: // device
				m := uint32(syscall.S_IFCHR)
				if r.IntN(2) == 0 {
					m = syscall.S_IFBLK
				}
				major, minor := uint64(r.IntN(4000)), uint64(r.IntN(1<<20))
				if r.IntN(2) == 0 {
					major, minor = uint64(r.IntN(255)), uint64(r.IntN(255))
				}
				dev := (major&0xfff)<<8 | (major&0xfffff000)<<32 | (minor & 0xff) | (minor&0xffffff00)<<12
				if err := syscall.Mknod(p, m|0600, int(dev)); err != nil {
					return err
				}
				if err := setMeta(p, true); err != nil { // user.* xattrs are not permitted on device nodes
					return err
				}
				times = append(times, pending{p, randTime(), false})
			}
		}
		return nil
	}
	if err := build(root, 0); err != nil {
		return count, err
	}
	if err := setMeta(root, false); err != nil {
		return count, err
	}
	syscall.Chmod(root, 0755|uint32(r.IntN(2))<<9)
	times = append(times, pending{root, randTime(), false})
	// set times last (children first), so directory mtimes stay as chosen
	for _, t := range times {
		ts := []syscall.Timespec{syscall.NsecToTimespec(t.mt.UnixNano()), syscall.NsecToTimespec(t.mt.UnixNano())}
		if err := utimesNoFollow(t.path, ts); err != nil {
			return count, err
		}
	}
	return count, nil
}

func snapshot(root string) (map[string]*treeEntry, error) {
	out := map[string]*treeEntry{}
	err := filepath.Walk(root, func(p string, info os.FileInfo, err error) error {
		if err != nil {
			return err
		}
		rel, _ := filepath.Rel(root, p)
		st := info.Sys().(*syscall.Stat_t)
		e := &treeEntry{Path: rel, Mode: st.Mode & 07777, UID: st.Uid, GID: st.Gid, MtimeNs: st.Mtim.Nano(), Xattrs: map[string]string{}}
		switch st.Mode & syscall.S_IFMT {
		case syscall.S_IFDIR:
			e.Type = "dir"
		case syscall.S_IFREG:
			e.Type = "file"
			b, err := os.ReadFile(p)
			if err != nil {
				return err
			}
			e.Content = b
		case syscall.S_IFLNK:
			e.Type = "symlink"
			e.Target, _ = os.Readlink(p)
			e.Mode = 0
		case syscall.S_IFCHR:
			e.Type = "char"
			e.Rdev = uint64(st.Rdev)
		case syscall.S_IFBLK:
			e.Type = "block"
			e.Rdev = uint64(st.Rdev)
		default:
			e.Type = "other"
		}
		if keys, err := xattr.LList(p); err == nil {
			for _, k := range keys {
				v, _ := xattr.LGet(p, k)
				e.Xattrs[k] = string(v)
			}
		}
		out[rel] = e
		return nil
	})
	return out, err
}

// diffTrees returns (category, description) of the most important difference:
// categories are ranked so that a frequent low-priority class (e.g. a symlink
// mtime) cannot mask a structural one in the same tree.
func diffTrees(src, dst map[string]*treeEntry, ignore map[string]bool) (string, string) {
	found := map[string]string{}
	note := func(cat, format string, a ...any) {
		if _, ok := found[cat]; !ok {
			found[cat] = fmt.Sprintf(format, a...)
		}
	}
	var paths []string
	for p := range src {
		paths = append(paths, p)
	}
	sort.Strings(paths)
	for _, p := range paths {
		a, b := src[p], dst[p]
		if b == nil {
			note("missing-entry", "%q (%s) is missing from the unpacked tree", p, a.Type)
			continue
		}
		if a.Type != b.Type {
			note("type", "%q: type %s -> %s", p, a.Type, b.Type)
			continue
		}
		if a.Mode != b.Mode {
			note("mode", "%q (%s): mode %04o -> %04o", p, a.Type, a.Mode, b.Mode)
		}
		if a.UID != b.UID || a.GID != b.GID {
			note("owner", "%q: owner %d:%d -> %d:%d", p, a.UID, a.GID, b.UID, b.GID)
		}
		if a.Target != b.Target {
			note("symlink-target", "%q: target %q -> %q", p, a.Target, b.Target)
		}
		if a.Rdev != b.Rdev {
			note("device-number", "%q: rdev %x -> %x", p, a.Rdev, b.Rdev)
		}
		if !bytes.Equal(a.Content, b.Content) {
			note("content", "%q: content differs (%d -> %d bytes)", p, len(a.Content), len(b.Content))
		}
		if !ignore["xattr"] && fmt.Sprint(a.Xattrs) != fmt.Sprint(b.Xattrs) {
			note("xattr", "%q: xattrs %q -> %q", p, a.Xattrs, b.Xattrs)
		}
		if a.MtimeNs != b.MtimeNs && !ignore["mtime-"+a.Type] {
			if d := a.MtimeNs - b.MtimeNs; ignore["mtime-subsecond"] && d > -1e9 && d < 1e9 {
				continue // the format keeps whole seconds (truncated or rounded)
			}
			note("mtime-"+a.Type, "%q (%s): mtime %d -> %d", p, a.Type, a.MtimeNs, b.MtimeNs)
		}
	}
	for p := range dst {
		if src[p] == nil {
			note("extra-entry", "%q appears only in the unpacked tree", p)
		}
	}
	for _, cat := range []string{"missing-entry", "extra-entry", "type", "content", "symlink-target", "device-number", "mode", "owner", "xattr", "mtime-file", "mtime-dir", "mtime-char", "mtime-block", "mtime-symlink"} {
		if d, ok := found[cat]; ok && !ignore[cat] {
			return cat, d
		}
	}
	return "", ""
}

// sortStrings orders paths depth-first (component-wise), the order a tar of a tree has.
func sortStrings(a []string) {
	sort.Slice(a, func(i, j int) bool {
		x, y := strings.Split(a[i], "/"), strings.Split(a[j], "/")
		if a[i] == "." {
			return a[j] != "."
		}
		if a[j] == "." {
			return false
		}
		for k := 0; k < len(x) && k < len(y); k++ {
			if x[k] != y[k] {
				return x[k] < y[k]
			}
		}
		return len(x) < len(y)
	})
}

func timeFromNs(ns int64) time.Time { return time.Unix(0, ns) }

// prepopulate puts older things in the way of an unpack: at some of the paths the archive is going to create there
// already is an entry - a file with other content and a stale xattr, two such files sharing one inode, a symlink where
// a file will be, a file where a symlink or device will be, an existing directory with other permissions. Nothing is
// created at a path the archive does not have, and no file where a directory has to go (unpacking refuses that).
func prepopulate(c *fw.Case, dst string, want map[string]*treeEntry) int {
	var paths []string
	for p := range want {
		if p != "." {
			paths = append(paths, p)
		}
	}
	sortStrings(paths)
	n := 0
	lastFile := ""
	for _, p := range paths {
		if !c.Chance(1, 3, "prior.pick") {
			continue
		}
		full := filepath.Join(dst, p)
		if err := os.MkdirAll(filepath.Dir(full), 0755); err != nil {
			continue
		}
		e := want[p]
		switch e.Type {
		case "dir":
			if os.Mkdir(full, 0700) == nil {
				n++
			}
		case "file":
			switch c.Draw(3, "prior.file") {
			case 0:
				if os.WriteFile(full, []byte("older content of "+p), 0600) == nil {
					xattr.LSet(full, "user.stale", []byte("1"))
					lastFile = full
					n++
				}
			case 1:
				if lastFile != "" && os.Link(lastFile, full) == nil {
					n++
				}
			case 2:
				if os.Symlink("somewhere/else", full) == nil {
					n++
				}
			}
		default: // symlink, char, block
			if os.WriteFile(full, []byte("a file where something else will be"), 0644) == nil {
				lastFile = full
				n++
			}
		}
	}
	return n
}
