package checks

import (
	"bytes"
	"context"
	"fmt"
	"os"
	"testing"

	"verif/fw"
	"verif/simrt"

	"github.com/folbricht/desync"
)

// ---- C01: extract reproduces the indexed blob byte-for-byte ----

func runC01(c *fw.Case) {
	if desyncBin() != "" && c.ChanceAdded(1, procRate(80), "c01.proc") {
		runC01Proc(c)
		return
	}
	s := genAsmScenario(c, true)
	c.Note("%s", s.describe())
	// store faults (separate configuration from the fault-free runs)
	faulty := c.Chance(1, 4, "c01.faults")
	if faulty {
		k := c.Range(1, 2, "nfaults")
		for i := 0; i < k; i++ {
			kinds := []string{"error", "missing", "delay"}
			s.store.faults = append(s.store.faults, storeFault{op: "get", nth: 1 + c.Draw(12, "fault.nth"), kind: kinds[c.Draw(3, "fault.kind")]})
		}
	}
	// a mutator that rewrites part of a seed file while extraction runs
	mutateAt := 0
	var victims []seedSpec // never the target itself: an outside writer to the target is not part of the property
	for _, sp := range s.seeds {
		if !sp.alias {
			victims = append(victims, sp)
		}
	}
	if len(victims) > 0 && c.Chance(1, 6, "c01.mutator") {
		mutateAt = 1 + c.Draw(120, "mutate.at")
	}
	yieldIO := c.Chance(1, 3, "c01.yieldio")
	c.Class(fmt.Sprintf("sizes=%d/%d n=%d action=%d clone=%v prior=%s seeds=%d faulty=%v mut=%v", s.sz.min, s.sz.max, s.n, s.action, s.clone, s.prior, len(s.seeds), faulty, mutateAt > 0))

	emu := &cloneEmu{c: c, enabled: s.clone}
	desync.VerifSetCloneRangeHook(emu.hook)
	defer desync.VerifSetCloneRangeHook(nil)

	// fault: the caller's context is cancelled at a drawn scheduling step; nil still means "the target is the blob"
	cancelAt := 0
	if c.ChanceAdded(1, 10, "c01.cancel") {
		cancelAt = 1 + c.Draw(300, "c01.cancel.at")
	}
	var err error
	mutated := false
	cancelled := false
	sr := c.Sim(func(rt *simrt.RT) {
		s.store.rt = rt
		rt.MaxSteps = 300000
		rt.YieldIO = yieldIO
		ctx, cancel := context.WithCancel(context.Background())
		_ = cancel // released with the case; the setup function returns before the tasks run
		if cancelAt > 0 {
			rt.AtStep(cancelAt, func() { cancelled = true; c.Fault("context-cancelled"); cancel() })
		}
		if mutateAt > 0 {
			mr := c.Rand("mutate.seed")
			victim := victims[mr.IntN(len(victims))]
			rt.IOHook = func(label string, n int) {
				if n == mutateAt && !mutated {
					mutated = true
					c.Fault("seed-mutated-during-run")
					if b, e := os.ReadFile(victim.file); e == nil && len(b) > 0 {
						p := mr.IntN(len(b))
						for j := p; j < p+1+mr.IntN(2000) && j < len(b); j++ {
							b[j] ^= 0x5a
						}
						f, e := os.OpenFile(victim.file, os.O_WRONLY, 0)
						if e == nil {
							f.WriteAt(b[p:], int64(p))
							f.Close()
						}
					}
				}
			}
		}
		rt.Go("main", func() {
			seeds, e := s.mkSeeds()
			if e != nil {
				err = e
				return
			}
			_, err = desync.AssembleFile(ctx, s.target, s.idx, s.store, seeds, desync.AssembleOptions{N: s.n, InvalidSeedAction: s.action})
		})
	})
	s.store.rt = nil
	c.Key(s.clone, emu.ok, emu.einval)
	mode := "noclone"
	if s.clone {
		mode = "clone"
	}
	if c.StdSimViolations(sr, "AssembleFile/"+mode, true) {
		return
	}
	if err == nil {
		got, rerr := os.ReadFile(s.target)
		if rerr != nil {
			c.Violate("output-missing", "AssembleFile/"+mode, "AssembleFile returned nil but the target cannot be read: %v", rerr)
			return
		}
		if len(got) != len(s.blob) {
			c.Violate("output-length", "AssembleFile/"+mode, "AssembleFile returned nil; target has %d bytes, index length %d (%s)", len(got), len(s.blob), s.describe())
			return
		}
		if !bytes.Equal(got, s.blob) {
			i := 0
			for i < len(got) && got[i] == s.blob[i] {
				i++
			}
			c.Violate("output-mismatch", "AssembleFile/"+mode, "AssembleFile returned nil; target differs from the blob first at byte %d (%s)", i, s.describe())
			return
		}
		c.Outcome("ok")
		return
	}
	// failure: allowed only outside the liveness clause
	must := !faulty && !mutated && !cancelled && !s.hasAlias && (s.allValid || s.action != desync.InvalidSeedActionBailOut)
	if must {
		c.Violate("unexpected-failure", "AssembleFile/"+mode, "store complete and fault-free, seeds consistent or action=%d, yet AssembleFile failed: %v (%s)", s.action, err, s.describe())
		return
	}
	c.Outcome("error-allowed")
}

func TestC01(t *testing.T) {
	fw.Main(t, &fw.Check{ID: "C01", Level: "exploration", Run: runC01})
}
