package checks

import (
	gnutar "archive/tar"
	"bytes"
	"context"
	"encoding/binary"
	"encoding/json"
	"errors"
	"fmt"
	"io"
	"net"
	"net/url"
	"os"
	"os/exec"
	"path/filepath"
	"regexp"
	"strconv"
	"strings"
	"syscall"
	"time"

	"verif/fw"
	"verif/ref"

	"github.com/folbricht/desync"
)

// ---- process-level parts for C01, C09, C16, C17: the real binary on real files and a real local store ----

func runDesync(args ...string) (exit int, stdout, stderr []byte, err error) {
	return runDesyncIn("", args...)
}

func runDesyncIn(cwd string, args ...string) (exit int, stdout, stderr []byte, err error) {
	cmd := exec.Command(desyncBin(), args...)
	cmd.Dir = cwd
	var o, e bytes.Buffer
	cmd.Stdout, cmd.Stderr = &o, &e
	cmd.Env = append(os.Environ(), "HOME=/nonexistent-verif-home")
	rerr := cmd.Run()
	if ee, ok := rerr.(*exec.ExitError); ok {
		return ee.ExitCode(), o.Bytes(), e.Bytes(), nil
	}
	return 0, o.Bytes(), e.Bytes(), rerr
}

// runDesyncStdin runs the binary with the given bytes on its standard input.
func runDesyncStdin(stdin []byte, args ...string) (exit int, stdout, stderr []byte, err error) {
	cmd := exec.Command(desyncBin(), args...)
	var o, e bytes.Buffer
	cmd.Stdin, cmd.Stdout, cmd.Stderr = bytes.NewReader(stdin), &o, &e
	cmd.Env = append(os.Environ(), "HOME=/nonexistent-verif-home")
	rerr := cmd.Run()
	if ee, ok := rerr.(*exec.ExitError); ok {
		return ee.ExitCode(), o.Bytes(), e.Bytes(), nil
	}
	return 0, o.Bytes(), e.Bytes(), rerr
}

// runDesyncEnv runs the binary with extra environment and a watchdog; a watchdog expiry is errProcTimeout.
func runDesyncEnv(env []string, limit time.Duration, args ...string) (exit int, stdout, stderr []byte, err error) {
	ctx, cancel := context.WithTimeout(context.Background(), limit)
	defer cancel()
	cmd := exec.CommandContext(ctx, desyncBin(), args...)
	var o, e bytes.Buffer
	cmd.Stdout, cmd.Stderr = &o, &e
	cmd.Env = append(append(os.Environ(), "HOME=/nonexistent-verif-home"), env...)
	cmd.WaitDelay = 5 * time.Second
	rerr := cmd.Run()
	if ctx.Err() != nil {
		return -1, o.Bytes(), e.Bytes(), errProcTimeout
	}
	if ee, ok := rerr.(*exec.ExitError); ok {
		return ee.ExitCode(), o.Bytes(), e.Bytes(), nil
	}
	return 0, o.Bytes(), e.Bytes(), rerr
}

// runExeEnv is runDesyncEnv for another executable (the test binary acting as a shim in front of the real one).
func runExeEnv(exe string, env []string, limit time.Duration, args ...string) (exit int, stdout, stderr []byte, err error) {
	ctx, cancel := context.WithTimeout(context.Background(), limit)
	defer cancel()
	cmd := exec.CommandContext(ctx, exe, args...)
	var o, e bytes.Buffer
	cmd.Stdout, cmd.Stderr = &o, &e
	cmd.Env = append(append(os.Environ(), "HOME=/nonexistent-verif-home"), env...)
	cmd.WaitDelay = 5 * time.Second
	rerr := cmd.Run()
	if ctx.Err() != nil {
		return -1, o.Bytes(), e.Bytes(), errProcTimeout
	}
	if ee, ok := rerr.(*exec.ExitError); ok {
		return ee.ExitCode(), o.Bytes(), e.Bytes(), nil
	}
	return 0, o.Bytes(), e.Bytes(), rerr
}

func writeIndexFile(path string, idx desync.Index) error {
	f, err := os.Create(path)
	if err != nil {
		return err
	}
	defer f.Close()
	_, err = idx.WriteTo(f)
	return err
}

func fillLocalStore(dir string, blob []byte, chunks []desync.IndexChunk) error {
	os.MkdirAll(dir, 0755)
	ls, err := desync.NewLocalStore(dir, desync.StoreOptions{})
	if err != nil {
		return err
	}
	for _, ch := range chunks {
		if err := ls.StoreChunk(desync.NewChunk(blob[ch.Start : ch.Start+ch.Size])); err != nil {
			return err
		}
	}
	return nil
}

// C01: `desync extract` with seeds, invalid-seed options, prior destination content, with and without --in-place.
func runC01Proc(c *fw.Case) {
	if c.Chance(1, 5, "proc.sysfault") {
		runSysFaultProc(c, "C01")
		return
	}
	c.Probe("process-level-case (real desync binary)")
	s := genAsmScenario(c, true)
	storeDir := filepath.Join(c.Dir(), "store.d")
	if err := fillLocalStore(storeDir, s.blob, s.idx.Chunks); err != nil {
		c.HarnessError("%v", err)
		return
	}
	indexFile := filepath.Join(c.Dir(), "target.caibx")
	writeIndexFile(indexFile, s.idx)
	inPlace := c.Bool("cli.inplace")
	args := []string{"extract", "-n", strconv.Itoa(s.n), "-s", storeDir}
	allValid := true
	// --seed-dir: every <file>.caibx with <file> next to it in the directory is a seed, except the index being
	// extracted (which sits next to the prior content of the destination). Directory, index and destination are
	// spelled relative or absolute independently; the process runs in the parent of the case directory.
	seedDir := c.Chance(1, 3, "cli.seeddir")
	cwd := filepath.Dir(c.Dir())
	spell := func(p string, label string) string {
		rel, err := filepath.Rel(cwd, p)
		if err != nil {
			return p
		}
		switch c.Draw(4, label) {
		case 0:
			return rel
		case 1:
			return "./" + rel
		case 2:
			return filepath.Base(c.Dir()) + "/../" + rel
		}
		return p
	}
	targetArg := s.target
	if seedDir {
		indexFile, targetArg = spell(indexFile, "cli.spell.index"), spell(s.target, "cli.spell.target")
		args = append(args, "--seed-dir", spell(c.Dir(), "cli.spell.dir"))
	}
	for i, sp := range s.seeds {
		if sp.alias {
			continue // the CLI takes seeds as <file>.caibx next to <file>; the destination itself is covered in-bubble
		}
		si := sp.file + ".caibx"
		if _, err := os.Stat(si); err != nil {
			writeIndexFile(si, sp.idx)
		}
		if !seedDir {
			args = append(args, "--seed", si)
		}
		if !sp.validAtRest {
			allValid = false
		}
		_ = i
	}
	switch s.action {
	case desync.InvalidSeedActionSkip:
		args = append(args, "--skip-invalid-seeds")
	case desync.InvalidSeedActionRegenerate:
		args = append(args, "--regenerate-invalid-seeds")
	}
	if inPlace {
		args = append(args, "--in-place")
	}
	args = append(args, indexFile, targetArg)
	c.Class(fmt.Sprintf("cli extract inplace=%v action=%d seeds=%d prior=%s seeddir=%v", inPlace, s.action, len(s.seeds), s.prior, seedDir))
	c.Note("real `desync %s` (%s)", strings.Join(args, " "), s.describe())
	c.NonTrivial()
	exit, _, stderr, err := runDesyncIn(cwd, args...)
	if err != nil {
		c.HarnessError("%v", err)
		return
	}
	c.SubEval(1)
	if exit == 0 {
		got, rerr := os.ReadFile(s.target)
		if rerr != nil || !bytes.Equal(got, s.blob) {
			c.Violate("output-mismatch", "desync extract", "exit 0 but the destination (%d bytes, %v) is not the blob (%d bytes)", len(got), rerr, len(s.blob))
			return
		}
		c.Outcome("ok")
		return
	}
	if allValid || s.action != desync.InvalidSeedActionBailOut {
		c.Violate("unexpected-failure", "desync extract", "store complete, seeds consistent or action=%d, yet exit %d: %s", s.action, exit, tailBytes(stderr, 300))
		return
	}
	c.Outcome("error-allowed")
}

func tailBytes(b []byte, n int) string {
	if len(b) > n {
		b = b[len(b)-n:]
	}
	return string(b)
}

// C09: `desync cat -o <offset> -l <length> <index> [<output file>]`, optionally with a cache and with a chunk missing from the store.
func runC09Proc(c *fw.Case) {
	if c.Chance(1, 5, "proc.sysfault") {
		runSysFaultProc(c, "C09")
		return
	}
	c.Probe("process-level-case (real desync binary)")
	sz := c09Sizes[c.Draw(len(c09Sizes), "c09.sizes")]
	blob := genNullyBlob(c, sz)
	idx := mkIndex(blob, sz)
	storeDir := filepath.Join(c.Dir(), "store.d")
	if err := fillLocalStore(storeDir, blob, idx.Chunks); err != nil {
		c.HarnessError("%v", err)
		return
	}
	indexFile := filepath.Join(c.Dir(), "blob.caibx")
	writeIndexFile(indexFile, idx)
	L := len(blob)
	// fault: one chunk object is removed from the store
	missFrom, missTo := -1, -1
	if len(idx.Chunks) > 0 && c.Bool("cat.missing") {
		ch := idx.Chunks[c.Draw(len(idx.Chunks), "cat.victim")]
		null := desync.NewNullChunk(sz.max)
		if ch.ID != null.ID {
			os.Remove(chunkFile(storeDir, ch.ID, false))
			c.Fault("store-chunk-missing")
			// every position of that id is affected
			missFrom, missTo = int(ch.Start), int(ch.Start+ch.Size)
			for _, o := range idx.Chunks {
				if o.ID == ch.ID {
					if int(o.Start) < missFrom {
						missFrom = int(o.Start)
					}
					if int(o.Start+o.Size) > missTo {
						missTo = int(o.Start + o.Size)
					}
				}
			}
		}
	}
	toFile := c.Bool("cat.tofile")
	useCache := c.Bool("cat.cache")
	c.Class(fmt.Sprintf("cli cat sizes=%d/%d tofile=%v cache=%v missing=%v", sz.min, sz.max, toFile, useCache, missFrom >= 0))
	c.NonTrivial()
	for i := 0; i < 6; i++ {
		off := c.Draw(L+1, "cat.off")
		length := c.Draw(L-off+1, "cat.len")
		if i == 0 {
			off, length = 0, 0
		}
		args := []string{"cat", "-s", storeDir, "-o", strconv.Itoa(off), "-l", strconv.Itoa(length)}
		if useCache {
			cd := filepath.Join(c.Dir(), fmt.Sprintf("cache%d", i))
			os.MkdirAll(cd, 0755)
			args = append(args, "-c", cd)
		}
		args = append(args, indexFile)
		outFile := filepath.Join(c.Dir(), fmt.Sprintf("out%d", i))
		if toFile {
			args = append(args, outFile)
		}
		exit, out, stderr, err := runDesync(args...)
		if err != nil {
			c.HarnessError("%v", err)
			return
		}
		if toFile {
			out, _ = os.ReadFile(outFile)
		}
		c.SubEval(1)
		want := blob[off:]
		if length > 0 {
			want = blob[off : off+length]
		}
		if exit == 0 {
			if !bytes.Equal(out, want) {
				c.Violate("read-wrong-data", "desync cat", "`desync %s` exits 0 but wrote %d bytes that differ from the blob range (%d bytes)", strings.Join(args, " "), len(out), len(want))
				return
			}
			continue
		}
		// a failure is only acceptable when the range needs the missing chunk
		touches := missFrom >= 0 && off < missTo && off+len(want) > missFrom
		if missFrom >= 0 && len(want) == 0 {
			touches = true // an empty range at a chunk boundary may still load a chunk
		}
		if !touches {
			c.Violate("cat-failed", "desync cat", "`desync %s` on a blob of %d bytes exits %d although every chunk it needs is in the store: %s", strings.Join(args, " "), L, exit, tailBytes(stderr, 200))
			return
		}
	}
	c.Outcome("ok")
}

// C17: `desync verify-index` exits 0 iff the file matches.
func runC17Proc(c *fw.Case) {
	c.Probe("process-level-case (real desync binary)")
	sz := c09Sizes[c.Draw(len(c09Sizes), "c17.sizes")]
	blob := genBlob(c, sz, 60*int(sz.max))
	if c.ChanceAdded(1, 8, "cli.emptyblob") {
		blob = nil // an index without chunks: only the empty file matches it
	}
	idx := mkIndex(blob, sz)
	indexFile := filepath.Join(c.Dir(), "blob.caibx")
	writeIndexFile(indexFile, idx)
	file := filepath.Join(c.Dir(), "blob")
	n := strconv.Itoa(c.Range(1, 12, "cli.n"))
	c.Class("cli verify-index n=" + n)
	c.NonTrivial()
	try := func(data []byte, what string, wantOK bool) bool {
		os.WriteFile(file, data, 0644)
		exit, _, stderr, err := runDesync("verify-index", "-n", n, indexFile, file)
		if err != nil {
			c.HarnessError("%v", err)
			return false
		}
		c.SubEval(1)
		if wantOK && exit != 0 {
			c.Violate("intact-file-rejected", "desync verify-index", "n=%s: exit %d for a matching file: %s", n, exit, tailBytes(stderr, 200))
			return false
		}
		if !wantOK && exit == 0 {
			c.Violate("damaged-file-accepted", "desync verify-index", "n=%s chunks=%d: %s, yet exit 0", n, len(idx.Chunks), what)
			return false
		}
		return true
	}
	if !try(blob, "intact", true) {
		return
	}
	// a file that is not there is never a match
	{
		os.Remove(file)
		exit, _, _, err := runDesync("verify-index", "-n", n, indexFile, file)
		if err != nil {
			c.HarnessError("%v", err)
			return
		}
		c.SubEval(1)
		if exit == 0 {
			c.Violate("damaged-file-accepted", "desync verify-index", "n=%s chunks=%d: the file does not exist, yet exit 0", n, len(idx.Chunks))
			return
		}
	}
	if len(blob) == 0 {
		c.Fault("extension")
		if try([]byte{byte(c.Draw(256, "cli.extra"))}, "extended by 1 byte (index of length 0)", false) {
			c.Outcome("ok")
		}
		return
	}
	data := make([]byte, len(blob))
	for i := 0; i < 6; i++ {
		copy(data, blob)
		p := c.Draw(len(blob), "cli.pos")
		if i == 0 {
			p = len(blob) - 1
		}
		data[p] ^= 0x20
		c.Fault("byte-flip")
		if !try(data, fmt.Sprintf("byte %d of %d changed", p, len(blob)), false) {
			return
		}
	}
	c.Fault("truncation")
	if !try(blob[:len(blob)-1], "truncated by 1 byte", false) {
		return
	}
	c.Fault("extension")
	if !try(append(append([]byte(nil), blob...), blob[len(blob)-1]), "extended by 1 byte", false) {
		return
	}
	c.Outcome("ok")
}

var cliHex64 = regexp.MustCompile(`[0-9a-f]{64}`)

// C16: `desync prune -y` and `desync verify [-r]` on a compressed local store.
func runC16Proc(c *fw.Case) {
	c.Probe("process-level-case (real desync binary)")
	dir := filepath.Join(c.Dir(), []string{"store.d", ".store", "store dir", ".cache/desync"}[c.T.DrawOptional(4, "cli.dirname", 0)])
	os.MkdirAll(dir, 0755)
	r := c.Rand("c16.seed")
	sz := sizes{64, 256, 1024}
	blob := genBlob(c, sz, 30*int(sz.max))
	idx := mkIndex(blob, sz)
	if err := fillLocalStore(dir, blob, idx.Chunks); err != nil {
		c.HarnessError("%v", err)
		return
	}
	// extra unreferenced chunks, a corrupted referenced chunk, temp files, junk
	ls, _ := desync.NewLocalStore(dir, desync.StoreOptions{})
	var extra []desync.ChunkID
	for i := 0; i < c.Range(0, 6, "extra"); i++ {
		b := make([]byte, 1+r.IntN(500))
		for j := range b {
			b[j] = byte(r.IntN(256))
		}
		ch := desync.NewChunk(b)
		ls.StoreChunk(ch)
		extra = append(extra, ch.ID())
	}
	referenced := map[desync.ChunkID]bool{}
	for _, ch := range idx.Chunks {
		referenced[ch.ID] = true
	}
	tmp := filepath.Join(dir, "abcd", ".tmp-cacnk123456")
	os.MkdirAll(filepath.Dir(tmp), 0755)
	os.WriteFile(tmp, []byte("partial"), 0644)
	junk := filepath.Join(dir, "README")
	os.WriteFile(junk, []byte("junk"), 0644)
	indexFile := filepath.Join(c.Dir(), "blob.caibx")
	writeIndexFile(indexFile, idx)
	// more indexes over the same store: prune keeps the union of what they reference
	indexArgs := []string{indexFile}
	for i := 0; i < c.Draw(3, "cli.moreidx"); i++ {
		b2 := genBlob(c, sz, c.Range(1, 60, "cli.idx.chunks")*int(sz.max)/2)
		i2 := mkIndex(b2, sz)
		if err := fillLocalStore(dir, b2, i2.Chunks); err != nil {
			c.HarnessError("%v", err)
			return
		}
		for _, ch := range i2.Chunks {
			referenced[ch.ID] = true
		}
		f := filepath.Join(c.Dir(), fmt.Sprintf("blob%d.caibx", i))
		writeIndexFile(f, i2)
		indexArgs = append(indexArgs, f)
	}
	for i := len(indexArgs) - 1; i > 0; i-- {
		j := c.Draw(i+1, "cli.idx.order")
		indexArgs[i], indexArgs[j] = indexArgs[j], indexArgs[i]
	}
	// the store may be kept uncompressed; the commands learn that from store-options in the config file
	unc := c.ChanceAdded(1, 3, "cli.uncompressed")
	var cfgArgs []string
	if unc {
		filepath.Walk(dir, func(p string, info os.FileInfo, err error) error {
			if err == nil && info.Mode().IsRegular() && strings.HasSuffix(p, ".cacnk") && cliHex64.MatchString(filepath.Base(p)) {
				if z, rerr := os.ReadFile(p); rerr == nil {
					if b, derr := desync.Decompress(nil, z); derr == nil {
						os.WriteFile(strings.TrimSuffix(p, ".cacnk"), b, 0644)
						os.Remove(p)
					}
				}
			}
			return nil
		})
		cfgFile := filepath.Join(c.Dir(), "config.json")
		os.WriteFile(cfgFile, []byte(fmt.Sprintf(`{"store-options": {%q: {"uncompressed": true}}}`, dir)), 0644)
		cfgArgs = []string{"--config", cfgFile}
	}
	var bad desync.ChunkID
	haveBad := false
	if len(idx.Chunks) > 0 && c.Bool("corrupt") {
		bad = idx.Chunks[c.Draw(len(idx.Chunks), "bad")].ID
		os.WriteFile(chunkFile(dir, bad, unc), []byte("not this chunk, and not a zstd frame"), 0644)
		haveBad = true
		c.Fault("stored-chunk-corrupted")
	}
	op := c.Draw(3, "cli.op")
	c.Class(fmt.Sprintf("cli op=%d indexes=%d unc=%v", op, len(indexArgs), unc))
	c.NonTrivial()
	exists := func(p string) bool { _, err := os.Lstat(p); return err == nil }
	switch op {
	case 0:
		exit, _, stderr, err := runDesync(append(append(append([]string{}, cfgArgs...), "prune", "-y", "-s", dir), indexArgs...)...)
		if err != nil {
			c.HarnessError("%v", err)
			return
		}
		c.SubEval(1)
		for id := range referenced {
			if !exists(chunkFile(dir, id, unc)) {
				c.Violate("prune-deleted-too-much", "desync prune", "referenced chunk %s was removed (exit %d)", id.String()[:8], exit)
				return
			}
		}
		if !exists(junk) {
			c.Violate("prune-deleted-too-much", "desync prune", "a non-chunk file was removed")
			return
		}
		if exit != 0 {
			c.Violate("prune-failed", "desync prune", "exit %d: %s", exit, tailBytes(stderr, 200))
			return
		}
		for _, id := range extra {
			if !referenced[id] && exists(chunkFile(dir, id, unc)) {
				c.Violate("prune-left-garbage", "desync prune", "exit 0 but unreferenced chunk %s is still there", id.String()[:8])
				return
			}
		}
		if exists(tmp) {
			c.Violate("prune-left-garbage", "desync prune", "exit 0 but an abandoned temporary file is still there")
			return
		}
	case 1, 2:
		args := []string{"verify", "-s", dir, "-n", strconv.Itoa(c.Range(1, 6, "cli.n"))}
		if op == 2 {
			args = append(args, "-r")
		}
		exit, _, stderr, err := runDesync(append(append([]string{}, cfgArgs...), args...)...)
		if err != nil {
			c.HarnessError("%v", err)
			return
		}
		c.SubEval(1)
		if exit != 0 {
			c.Violate("verify-failed", "desync verify", "exit %d: %s", exit, tailBytes(stderr, 200))
			return
		}
		reported := map[string]bool{}
		for _, line := range strings.Split(string(stderr), "\n") {
			if m := cliHex64.FindString(line); m != "" && strings.Contains(line, "does not match") {
				reported[m] = true
			}
		}
		if haveBad != reported[bad.String()] || len(reported) > 1 || (!haveBad && len(reported) > 0) {
			c.Violate("verify-report-wrong", "desync verify", "invalid chunk planted=%v (%s); reported: %v", haveBad, bad.String()[:8], reported)
			return
		}
		if haveBad && (op == 2) == exists(chunkFile(dir, bad, unc)) {
			c.Violate("verify-repair-wrong", "desync verify", "repair=%v but the invalid chunk file exists=%v afterwards", op == 2, exists(chunkFile(dir, bad, unc)))
			return
		}
		for id := range referenced {
			if (!haveBad || id != bad) && !exists(chunkFile(dir, id, unc)) {
				c.Violate("verify-deleted-too-much", "desync verify", "valid chunk %s was removed", id.String()[:8])
				return
			}
		}
	}
	c.Outcome("ok")
}

// C05: `desync tar` then `desync untar`, catar file or index+store, both digests.
func runC05Proc(c *fw.Case) {
	if c.Chance(1, 5, "proc.sysfault") {
		runSysFaultProc(c, "C05")
		return
	}
	c.Probe("process-level-case (real desync binary)")
	src := filepath.Join(c.Dir(), "src")
	dst := filepath.Join(c.Dir(), "dst")
	nent, err := genTree(c, src, 30)
	if err != nil {
		c.HarnessError("%v", err)
		return
	}
	want, err := snapshot(src)
	if err != nil {
		c.HarnessError("%v", err)
		return
	}
	useIndex := c.Bool("cli.index")
	sha256mode := c.Chance(1, 3, "cli.sha256")
	storeDir := filepath.Join(c.Dir(), "store.d")
	os.MkdirAll(storeDir, 0755)
	os.MkdirAll(dst, 0755)
	archive := filepath.Join(c.Dir(), "tree.catar")
	var pre []string
	if sha256mode {
		pre = []string{"--digest", "sha256"}
	}
	tarArgs := append(append([]string{}, pre...), "tar")
	untarArgs := append(append([]string{}, pre...), "untar")
	if useIndex {
		archive = filepath.Join(c.Dir(), "tree.caidx")
		tarArgs = append(tarArgs, "-i", "-s", storeDir, "-m", "1:4:16", "-n", strconv.Itoa(c.Range(1, 4, "cli.n")))
		untarArgs = append(untarArgs, "-i", "-s", storeDir, "-n", strconv.Itoa(c.Range(1, 4, "cli.n2")))
	}
	// --input-format tar: the tree arrives as a tar file, possibly cut short inside a member (a producer that died, a
	// partial download). Then either the command fails, or what it wrote unpacks to the complete tree.
	tarIn := c.Chance(1, 3, "cli.tarin")
	cut := false
	ignore := map[string]bool{}
	if tarIn {
		tb, ok := gnuTarOf(want)
		if !ok {
			c.Outcome("tar-input-not-representable")
			return
		}
		if cut = c.Bool("cli.tarcut"); cut {
			off := c.Draw(len(tb), "cli.tarcut.at")
			if off%512 == 0 {
				off++ // a cut on a block boundary can be a shorter, complete archive
			}
			if off < len(tb) {
				tb = tb[:off]
			}
			// archive/tar itself takes a stream that ends inside the padding after a member's data for a complete,
			// shorter archive; only a cut it reports is one `desync tar` can be expected to report
			if !tarReadFails(tb) {
				c.Outcome("tar-cut-not-detectable")
				return
			}
			c.Fault("tar-input-truncated")
		}
		src = filepath.Join(c.Dir(), "tree.tar")
		if err := os.WriteFile(src, tb, 0644); err != nil {
			c.HarnessError("%v", err)
			return
		}
		tarArgs = append(tarArgs, "--input-format", "tar")
		ignore["xattr"] = true // not put into the tar input
	}
	// flags that waive one attribute each: the rest must still be reproduced, and the waived one must be what the
	// flag says (current user / left to the umask / not restored)
	noOwner := c.ChanceAdded(1, 5, "cli.no-same-owner")
	noPerm := c.ChanceAdded(1, 5, "cli.no-same-permissions")
	noTime := !tarIn && c.ChanceAdded(1, 6, "cli.no-time")
	if noOwner {
		untarArgs = append(untarArgs, "--no-same-owner")
		ignore["owner"], ignore["xattr"] = true, true // extended attributes are restored together with the owner
	}
	if noPerm {
		untarArgs = append(untarArgs, "--no-same-permissions")
		ignore["mode"] = true
	}
	if noTime {
		tarArgs = append(tarArgs, "--no-time")
		for _, t := range []string{"file", "dir", "symlink", "char", "block"} {
			ignore["mtime-"+t] = true
		}
	}
	if !tarIn && c.ChanceAdded(1, 6, "cli.one-file-system") {
		tarArgs = append(tarArgs, "-x") // the tree lives on one file system: nothing may be left out
	}
	tarArgs = append(tarArgs, archive, src)
	untarArgs = append(untarArgs, archive, dst)
	c.Class(fmt.Sprintf("cli tar/untar index=%v sha256=%v tarin=%v cut=%v owner=%v perm=%v time=%v entries<=%d", useIndex, sha256mode, tarIn, cut, !noOwner, !noPerm, !noTime, (nent+7)/8*8))
	c.Note("real `desync %s` then `desync %s`", strings.Join(tarArgs, " "), strings.Join(untarArgs, " "))
	c.NonTrivial()
	exit, _, stderr, err := runDesync(tarArgs...)
	if err != nil {
		c.HarnessError("%v", err)
		return
	}
	if exit != 0 && cut {
		c.SubEval(1)
		c.Outcome("truncated-input-rejected")
		return
	}
	if exit != 0 {
		c.Violate("tar-failed", "desync tar", "exit %d: %s", exit, tailBytes(stderr, 300))
		return
	}
	// the mtree manifest of the source directory, of the archive or of the index lists the tree
	if (!tarIn || !cut) && !noTime {
		margs := append(append([]string{}, pre...), "mtree")
		what := c.Draw(4, "cli.mtree")
		switch {
		case what == 1 && !tarIn:
			margs = append(margs, src)
		case what == 2 && useIndex:
			margs = append(margs, "-i", "-s", storeDir, archive)
		case what == 2 || what == 3 && !useIndex:
			margs = append(margs, archive)
		default:
			margs = nil
		}
		if margs != nil {
			mexit, mout, mstderr, err := runDesync(margs...)
			if err != nil {
				c.HarnessError("%v", err)
				return
			}
			c.SubEval(1)
			if mexit != 0 {
				c.Violate("mtree-failed", "desync mtree", "`desync %s` exits %d: %s", strings.Join(margs, " "), mexit, tailBytes(mstderr, 300))
				return
			}
			if !checkMtree(c, "mtree-out", mout, want, sha256mode) {
				return
			}
		}
	}
	first, _ := os.ReadFile(archive)
	// packing twice gives identical bytes
	if exit, _, _, _ := runDesync(tarArgs...); exit == 0 {
		if second, _ := os.ReadFile(archive); !bytes.Equal(first, second) {
			c.Violate("archive-not-deterministic", "desync tar", "two runs of the same tar command wrote different files (%d vs %d bytes)", len(first), len(second))
			return
		}
	}
	if c.ChanceAdded(1, 3, "cli.prior") {
		if prepopulate(c, dst, want) > 0 {
			c.Fault("destination-not-empty")
		}
	}
	// fault: the process runs as root but without CAP_FSETID (a hardened container): every write(2) to a regular file
	// then strips its set-id bits, and chmod(2) cannot set the set-gid bit on an entry of a group the process is not in
	noFsetid := !noPerm && c.ChanceAdded(1, 4, "cli.no-cap-fsetid")
	if noFsetid {
		exe, eerr := os.Executable()
		if eerr != nil {
			c.HarnessError("%v", eerr)
			return
		}
		exit, _, stderr, err = runExeEnv(exe, []string{"VERIF_DROPCAP_SHIM=" + desyncBin()}, 120*time.Second, untarArgs...)
		if err == nil && exit == 3 && bytes.Contains(stderr, []byte("dropcap shim:")) {
			// this environment does not let the shim change its bounding set: the fault kind is not available here
			// (visible as a probe in the evidence), the case runs without it
			c.Probe("process-without-CAP_FSETID unavailable: " + strings.TrimSpace(string(tailBytes(stderr, 120))))
			noFsetid = false
			exit, _, stderr, err = runDesync(untarArgs...)
		}
	} else {
		exit, _, stderr, err = runDesync(untarArgs...)
	}
	if noFsetid {
		c.Fault("process-without-CAP_FSETID")
	}
	if errors.Is(err, errProcTimeout) {
		c.Probe("procsim-timeout-case-dropped")
		return
	}
	if err != nil {
		c.HarnessError("%v", err)
		return
	}
	c.SubEval(1)
	if exit != 0 {
		c.Violate("untar-failed", "desync untar", "exit %d: %s", exit, tailBytes(stderr, 300))
		return
	}
	got, err := snapshot(dst)
	if err != nil {
		c.HarnessError("%v", err)
		return
	}
	// the same archive unpacked into a GNU tar file instead of a directory
	if !cut && !noTime && c.ChanceAdded(1, 3, "cli.gnutar-out") {
		tarOut := filepath.Join(c.Dir(), "out.tar")
		gargs := append(append([]string{}, pre...), "untar")
		if useIndex {
			gargs = append(gargs, "-i", "-s", storeDir)
		}
		gargs = append(gargs, "--output-format", "gnu-tar", archive, tarOut)
		gexit, _, _, err := runDesync(gargs...)
		if err != nil {
			c.HarnessError("%v", err)
			return
		}
		c.SubEval(1)
		if gexit == 0 {
			tb, _ := os.ReadFile(tarOut)
			gt, perr := parseGnuTar(tb)
			if perr != nil {
				c.Violate("gnu-tar-unreadable", "desync untar --output-format gnu-tar", "`desync %s` exits 0: %v", strings.Join(gargs, " "), perr)
				return
			}
			for _, e := range want {
				if e.Type == "file" && e.Content == nil {
					e.Content = []byte{}
				}
			}
			gi := map[string]bool{"xattr": true, "mtime-subsecond": true}
			for k, v := range ignore {
				gi[k] = v
			}
			if cat, d := diffTrees(want, gt, gi); cat != "" {
				c.Violate("tree-differs", "gnu-tar-out/"+cat, "%s", d)
				return
			}
		} else {
			c.Probe("gnu-tar-refused (process level)")
		}
	}
	if noOwner {
		for p, e := range got {
			if e.UID != 0 || e.GID != 0 {
				c.Violate("tree-differs", "desync tar+untar/no-same-owner", "%q was unpacked with --no-same-owner as root but belongs to %d:%d", p, e.UID, e.GID)
				return
			}
		}
	}
	if noFsetid {
		// what the kernel does to such a process, whatever order desync works in: chmod(2) drops the set-gid bit of
		// an entry whose group the caller is not a member of
		in := map[uint32]bool{uint32(os.Getegid()): true}
		if gs, gerr := os.Getgroups(); gerr == nil {
			for _, g := range gs {
				in[uint32(g)] = true
			}
		}
		adj := map[string]*treeEntry{}
		for p, e := range want {
			ce := *e
			gid := ce.GID
			if noOwner {
				gid = 0
			}
			if ce.Mode&02000 != 0 && !in[gid] {
				ce.Mode &^= 02000
			}
			adj[p] = &ce
		}
		want = adj
	}
	if cat, d := diffTrees(want, got, ignore); cat != "" {
		if cut {
			c.Violate("truncated-input-accepted", "desync tar --input-format tar", "the tar input was cut short, `desync tar` exited 0 and its output unpacks to a different tree: %s", d)
			return
		}
		c.Violate("tree-differs", "desync tar+untar/"+cat, "%s", d)
		return
	}
	c.Outcome("ok")
}

// startServer runs `desync <args> -l 127.0.0.1:<port>` and waits until that very process listens on the port. The
// port is picked by binding and releasing it, so another process on the machine (another worker's server) can take it
// in between; a connection that succeeds proves nothing. The socket table decides: the child must own the listening
// socket. A child that lost the port exits and another port is tried.
func startServer(args ...string) (stop func(), addr string, err error) {
	stop, addr, _, err = startServerProc(args...)
	return
}

// startServerProc is startServer that also hands out the process (to signal it).
func startServerProc(args ...string) (stop func(), addr string, proc *os.Process, err error) {
	var last string
	for try := 0; try < 5; try++ {
		ln, err := net.Listen("tcp", "127.0.0.1:0")
		if err != nil {
			return nil, "", nil, err
		}
		addr = ln.Addr().String()
		port := ln.Addr().(*net.TCPAddr).Port
		ln.Close()
		cmd := exec.Command(desyncBin(), append(args, "-l", addr)...)
		var out bytes.Buffer
		cmd.Stdout, cmd.Stderr = &out, &out
		cmd.Env = append(os.Environ(), "HOME=/nonexistent-verif-home")
		if err := cmd.Start(); err != nil {
			return nil, "", nil, err
		}
		exited := make(chan struct{})
		go func() { cmd.Wait(); close(exited) }()
		stop = func() { cmd.Process.Kill(); <-exited }
		for i := 0; i < 1500; i++ {
			if pidListensOn(cmd.Process.Pid, port) {
				return stop, addr, cmd.Process, nil
			}
			select {
			case <-exited:
				i = 1 << 30
			default:
				time.Sleep(4 * time.Millisecond)
			}
		}
		stop()
		last = out.String()
	}
	return nil, "", nil, fmt.Errorf("%w: server did not start listening: %s", errProcTimeout, last)
}

// pidListensOn reports whether process pid owns a socket listening on 127.0.0.1:port (from /proc).
func pidListensOn(pid, port int) bool {
	b, err := os.ReadFile("/proc/net/tcp")
	if err != nil {
		return false
	}
	want := fmt.Sprintf("0100007F:%04X", port)
	inodes := map[string]bool{}
	for _, line := range strings.Split(string(b), "\n") {
		f := strings.Fields(line)
		if len(f) > 9 && f[1] == want && f[3] == "0A" {
			inodes["socket:["+f[9]+"]"] = true
		}
	}
	if len(inodes) == 0 {
		return false
	}
	fds, _ := os.ReadDir(fmt.Sprintf("/proc/%d/fd", pid))
	for _, fd := range fds {
		if l, err := os.Readlink(fmt.Sprintf("/proc/%d/fd/%s", pid, fd.Name())); err == nil && inodes[l] {
			return true
		}
	}
	return false
}

// C14: the real chunk-server / index-server commands, talked to by the real HTTP client over loopback.
func runC14Proc(c *fw.Case) {
	c.Probe("process-level-case (real desync binary)")
	dir := filepath.Join(c.Dir(), "up.d")
	os.MkdirAll(dir, 0755)
	r := c.Rand("proc.seed")
	mk := func() []byte {
		b := make([]byte, 1+r.IntN(3000))
		for i := range b {
			b[i] = byte(r.IntN(256))
		}
		return b
	}
	switch c.Draw(3, "proc.kind") {
	case 1:
		runC14ProcRetry(c)
		return
	case 2:
		runC14ProcSSH(c)
		return
	}
	if c.Bool("proc.index") {
		writable := c.Bool("proc.writable")
		args := []string{"index-server", "-s", dir}
		if writable {
			args = append(args, "-w")
		}
		idx := mkIndex(mk(), sizes{64, 256, 1024})
		writeIndexFile(filepath.Join(dir, "there.caibx"), idx)
		c.Class(fmt.Sprintf("cli index-server writable=%v", writable))
		c.NonTrivial()
		stop, addr, err := startServer(args...)
		if errors.Is(err, errProcTimeout) {
			c.Probe("procsim-timeout-case-dropped")
			return
		}
		if err != nil {
			c.HarnessError("%v", err)
			return
		}
		defer stop()
		u, _ := url.Parse("http://" + addr + "/")
		cl, err := desync.NewRemoteHTTPIndexStore(u, desync.StoreOptions{ErrorRetry: 0})
		if err != nil {
			c.HarnessError("%v", err)
			return
		}
		got, err := cl.GetIndex("there.caibx")
		c.SubEval(1)
		if err != nil {
			c.Violate("present-index-failed", "desync index-server", "GetIndex of an existing index: %v", err)
			return
		}
		if d := sameIndex(got, idx); d != "" {
			c.Violate("data-altered", "desync index-server", "index arrived altered: %s", d)
			return
		}
		if _, err := cl.GetIndex("absent.caibx"); !isMissing(err) {
			c.Violate("missing-misreported", "desync index-server", "GetIndex of a missing index returned %v", err)
			return
		}
		idx2 := mkIndex(mk(), sizes{64, 256, 1024})
		err = cl.StoreIndex("new.caibx", idx2)
		if writable {
			if err != nil {
				c.Violate("store-failed", "desync index-server -w", "StoreIndex: %v", err)
				return
			}
			f, ferr := os.Open(filepath.Join(dir, "new.caibx"))
			if ferr != nil {
				c.Violate("data-altered", "desync index-server -w", "StoreIndex succeeded but no file was written")
				return
			}
			st, perr := desync.IndexFromReader(f)
			f.Close()
			if perr != nil || sameIndex(st, idx2) != "" {
				c.Violate("data-altered", "desync index-server -w", "stored index differs (%v)", perr)
				return
			}
		} else if err == nil {
			c.Violate("failure-reported-as-success", "desync index-server", "a read-only index server accepted StoreIndex")
			return
		}
		c.Outcome("ok")
		return
	}
	unc := c.Bool("proc.uncompressed")
	writable := c.Bool("proc.writable")
	args := []string{"chunk-server", "-s", dir}
	if unc {
		args = append(args, "-u")
	}
	if writable {
		args = append(args, "-w")
	}
	ls, _ := desync.NewLocalStore(dir, desync.StoreOptions{})
	data := mk()
	ch := desync.NewChunk(data)
	ls.StoreChunk(ch)
	c.Class(fmt.Sprintf("cli chunk-server unc=%v writable=%v", unc, writable))
	c.NonTrivial()
	stop, addr, err := startServer(args...)
	if errors.Is(err, errProcTimeout) {
		c.Probe("procsim-timeout-case-dropped")
		return
	}
	if err != nil {
		c.HarnessError("%v", err)
		return
	}
	defer stop()
	u, _ := url.Parse("http://" + addr + "/")
	cl, err := desync.NewRemoteHTTPStore(u, desync.StoreOptions{Uncompressed: unc, ErrorRetry: 0})
	if err != nil {
		c.HarnessError("%v", err)
		return
	}
	got, err := cl.GetChunk(ch.ID())
	c.SubEval(1)
	if err != nil {
		c.Violate("present-chunk-failed", "desync chunk-server", "GetChunk of a present chunk (server -u=%v): %v", unc, err)
		return
	}
	if b, derr := got.Data(); derr != nil || !bytes.Equal(b, data) {
		c.Violate("data-altered", "desync chunk-server", "chunk arrived altered (server -u=%v): %d bytes, %v", unc, len(b), derr)
		return
	}
	if ok, err := cl.HasChunk(ch.ID()); err != nil || !ok {
		c.Violate("missing-misreported", "desync chunk-server", "HasChunk of a present chunk: %v %v", ok, err)
		return
	}
	absent := desync.ChunkID{0xaa, 0xbb}
	if _, err := cl.GetChunk(absent); !isMissing(err) {
		c.Violate("missing-misreported", "desync chunk-server", "GetChunk of a missing chunk returned %v", err)
		return
	}
	if ok, err := cl.HasChunk(absent); err != nil || ok {
		c.Violate("missing-misreported", "desync chunk-server", "HasChunk of a missing chunk: %v %v", ok, err)
		return
	}
	data2 := mk()
	ch2 := desync.NewChunk(data2)
	err = cl.StoreChunk(ch2)
	if writable {
		if err != nil {
			c.Violate("store-failed", "desync chunk-server -w", "StoreChunk: %v", err)
			return
		}
		back, gerr := ls.GetChunk(ch2.ID())
		if gerr != nil {
			c.Violate("data-altered", "desync chunk-server -w", "StoreChunk succeeded but the upstream store cannot deliver the chunk: %v", gerr)
			return
		}
		if b, _ := back.Data(); !bytes.Equal(b, data2) {
			c.Violate("data-altered", "desync chunk-server -w", "stored chunk differs")
			return
		}
	} else if err == nil {
		c.Violate("failure-reported-as-success", "desync chunk-server", "a read-only chunk server accepted StoreChunk")
		return
	}
	c.Outcome("ok")
}

// runC14ProcRetry: the retry budget a user configures - in the config file's store-options for the store URL, overridden
// by -e/--error-retry when given; -b/--error-retry-base-interval sets the delay only - is what the real client obeys:
// each object sees at most max(1, budget) attempts, and a run of transient 503s shorter than that is invisible.
func runC14ProcRetry(c *fw.Case) {
	sz := sizes{64, 256, 1024}
	blob := genBlob(c, sz, 4*int(sz.max))
	idx := mkIndex(blob, sz)
	if len(idx.Chunks) == 0 {
		c.Outcome("empty")
		return
	}
	g, err := newGateServer(false)
	if err != nil {
		c.HarnessError("%v", err)
		return
	}
	defer g.close()
	for _, ch := range idx.Chunks {
		g.addChunk(blob[ch.Start : ch.Start+ch.Size])
	}
	indexFile := filepath.Join(c.Dir(), "blob.caibx")
	writeIndexFile(indexFile, idx)
	cfgRetry := c.Range(0, 6, "retry.cfg")
	cfgFile := filepath.Join(c.Dir(), "config.json")
	cfg := fmt.Sprintf(`{"store-options": {%q: {"error-retry": %d, "error-retry-base-interval": 1000000}}}`, g.url(), cfgRetry)
	if err := os.WriteFile(cfgFile, []byte(cfg), 0644); err != nil {
		c.HarnessError("%v", err)
		return
	}
	args := []string{"cat", "--config", cfgFile, "-n", "1", "-s", g.url()}
	effective := cfgRetry
	flag := c.Draw(4, "retry.flag")
	switch flag {
	case 1:
		effective = c.Range(0, 6, "retry.e")
		args = append(args, "-e", strconv.Itoa(effective))
	case 2:
		args = append(args, "-b", "2ms")
	case 3:
		effective = c.Range(0, 6, "retry.e")
		args = append(args, "--error-retry-base-interval", "2ms", "--error-retry", strconv.Itoa(effective))
	}
	args = append(args, indexFile)
	budget := effective
	if budget < 1 {
		budget = 1
	}
	f := c.Draw(budget+2, "retry.failures")
	g.failFirst = f
	c.Class(fmt.Sprintf("cli retry-config cfg=%d flag=%d f=%d", cfgRetry, flag, f))
	c.Note("real `desync %s`, config error-retry=%d, first %d request(s) per object answered 503", strings.Join(args, " "), cfgRetry, f)
	c.NonTrivial()
	if f > 0 {
		c.Fault("http-503-transient")
	}
	exit, out, stderr, err := runDesync(args...)
	if err != nil {
		c.HarnessError("%v", err)
		return
	}
	c.SubEval(1)
	g.mu.Lock()
	per := map[string]int{}
	for k, v := range g.perPath {
		per[k] = v
	}
	g.mu.Unlock()
	// an id that occurs m times in the index is fetched up to m times; only the first f requests for it fail
	occ := map[string]int{}
	for _, ch := range idx.Chunks {
		id := ch.ID.String()
		occ["GET /"+id[:4]+"/"+id+".cacnk"]++
	}
	for k, v := range per {
		allowed := budget
		if f < budget {
			allowed = f + occ[k]
		}
		if v > allowed {
			c.Violate("too-many-attempts", "desync cat (config+flags)", "effective error-retry=%d allows %d attempt(s) per fetch, %d of the requests for the object fail and the index names it %d time(s): at most %d requests, the server saw %d for %s", effective, budget, f, occ[k], allowed, v, k)
			return
		}
	}
	if exit == 0 && !bytes.Equal(out, blob) {
		c.Violate("data-altered", "desync cat (config+flags)", "exit 0 but the output differs from the blob")
		return
	}
	if f < budget && exit != 0 {
		c.Violate("transient-failure-visible", "desync cat (config+flags)", "%d transient failure(s) per object < budget %d (config error-retry=%d, flags %v), yet exit %d: %s", f, budget, cfgRetry, args[6:len(args)-1], exit, tailBytes(stderr, 200))
		return
	}
	// all-zero chunks are produced locally and never requested; only a requested object can fail
	if f >= budget && exit == 0 && len(per) > 0 {
		c.Violate("failure-reported-as-success", "desync cat (config+flags)", "every one of the %d allowed attempt(s) for %d requested object(s) was answered 503, yet exit 0", budget, len(per))
		return
	}
	c.Outcome("ok")
}

// tarReadFails reports whether reading the whole tar stream with archive/tar ends in an error other than a clean EOF.
func tarReadFails(b []byte) bool {
	tr := gnutar.NewReader(bytes.NewReader(b))
	for {
		_, err := tr.Next()
		if err == io.EOF {
			return false
		}
		if err != nil {
			return true
		}
		if _, err := io.Copy(io.Discard, tr); err != nil {
			return true
		}
	}
}

// sshShimMain is the test binary acting as CASYNC_SSH_PATH: `<shim> <host> "<remote command>"`. Like ssh it hands the
// command to a shell; VERIF_SSH_CUT=n ends the connection after n bytes of server output (the link dies mid-stream).
func sshShimMain() {
	if len(os.Args) < 3 {
		os.Exit(64)
	}
	cmd := exec.Command("/bin/sh", "-c", os.Args[2])
	cmd.Stdin, cmd.Stderr = os.Stdin, io.Discard
	cut, err := strconv.Atoi(os.Getenv("VERIF_SSH_CUT"))
	if err != nil || cut < 0 {
		cmd.Stdout = os.Stdout
		if cmd.Run() != nil {
			os.Exit(1)
		}
		os.Exit(0)
	}
	out, err := cmd.StdoutPipe()
	if err != nil || cmd.Start() != nil {
		os.Exit(65)
	}
	io.CopyN(os.Stdout, out, int64(cut))
	cmd.Process.Kill()
	os.Exit(255)
}

// runC14ProcSSH: the casync protocol end to end. The client side is RemoteSSHStore in the harness process or the real
// `desync extract/cache -s ssh://...`; the "ssh" it starts is the shim above, the remote side the real `desync pull`
// serving a local store. Faults: chunks missing from the store, and the link dying after n bytes of server output.
func runC14ProcSSH(c *fw.Case) {
	exe, err := os.Executable()
	if err != nil {
		c.HarnessError("%v", err)
		return
	}
	sz := sizes{64, 256, 1024}
	blob := genBlob(c, sz, 12*int(sz.max))
	idx := mkIndex(blob, sz)
	if len(idx.Chunks) == 0 {
		c.Outcome("empty")
		return
	}
	storeDir := filepath.Join(c.Dir(), "remote.store")
	if err := fillLocalStore(storeDir, blob, idx.Chunks); err != nil {
		c.HarnessError("%v", err)
		return
	}
	// the remote side may keep its chunks uncompressed (store-options in the config file `desync pull` reads)
	remoteCmd := desyncBin()
	uncRemote := c.Chance(1, 3, "ssh.remote.uncompressed")
	if uncRemote {
		os.RemoveAll(storeDir)
		for _, ch := range idx.Chunks {
			f := chunkFile(storeDir, ch.ID, true)
			os.MkdirAll(filepath.Dir(f), 0755)
			os.WriteFile(f, blob[ch.Start:ch.Start+ch.Size], 0644)
		}
		cfgFile := filepath.Join(c.Dir(), "remote-config.json")
		os.WriteFile(cfgFile, []byte(fmt.Sprintf(`{"store-options": {%q: {"uncompressed": true}}}`, storeDir)), 0644)
		remoteCmd += " --config " + cfgFile
	}
	cut := -1
	if c.Chance(1, 3, "ssh.cut") {
		cut = c.Draw(len(blob)+400, "ssh.cut.at")
		c.Fault("ssh-link-dies-mid-stream")
	}
	n := c.Range(1, 4, "ssh.n")
	env := []string{"CASYNC_SSH_PATH=" + exe, "VERIF_SSH_SHIM=1", "CASYNC_REMOTE_PATH=" + remoteCmd, "VERIF_SSH_CUT=" + strconv.Itoa(cut)}
	u := "ssh://verif@remotehost" + storeDir
	c.NonTrivial()
	if c.Bool("ssh.binary") {
		// real binary as client
		cache := c.Bool("ssh.cache")
		c.Class(fmt.Sprintf("cli ssh client=binary cache=%v n=%d cut=%v unc-remote=%v", cache, n, cut >= 0, uncRemote))
		out := filepath.Join(c.Dir(), "out")
		cacheDir := filepath.Join(c.Dir(), "cache.d")
		os.MkdirAll(cacheDir, 0755)
		indexFile := filepath.Join(c.Dir(), "blob.caibx")
		writeIndexFile(indexFile, idx)
		args := []string{"extract", "-n", strconv.Itoa(n), "-s", u, indexFile, out}
		if cache {
			args = []string{"cache", "-n", strconv.Itoa(n), "-s", u, "-c", cacheDir, indexFile}
		}
		c.Note("real `desync %s` over the ssh shim and `desync pull`, link cut at %d", strings.Join(args, " "), cut)
		exit, _, stderr, err := runDesyncEnv(env, 90*time.Second, args...)
		if errors.Is(err, errProcTimeout) {
			c.Probe("procsim-timeout-case-dropped")
			return
		}
		if err != nil {
			c.HarnessError("%v", err)
			return
		}
		c.SubEval(1)
		if exit != 0 {
			if cut < 0 {
				c.Violate("present-chunk-failed", "desync "+args[0]+" over ssh", "complete remote store, healthy link, yet exit %d: %s", exit, tailBytes(stderr, 300))
				return
			}
			c.Outcome("error-reported")
			return
		}
		if cache {
			ls, _ := desync.NewLocalStore(cacheDir, desync.StoreOptions{})
			for _, ch := range idx.Chunks {
				got, err := ls.GetChunk(ch.ID)
				var b []byte
				if err == nil {
					b, err = got.Data()
				}
				if err != nil || !bytes.Equal(b, blob[ch.Start:ch.Start+ch.Size]) {
					c.Violate("data-altered", "desync cache over ssh", "exit 0 but chunk %s in the cache is missing or not the stored data (%v)", ch.ID.String()[:8], err)
					return
				}
			}
		} else if got, err := os.ReadFile(out); err != nil || !bytes.Equal(got, blob) {
			c.Violate("data-altered", "desync extract over ssh", "exit 0 but the output (%d bytes, %v) is not the blob (%d bytes)", len(got), err, len(blob))
			return
		}
		c.Outcome("ok")
		return
	}
	// RemoteSSHStore in this process; sequential requests, so the session pool (a FIFO) is predictable
	type obj struct {
		id      desync.ChunkID
		data    []byte
		present bool
	}
	var objs []obj
	seen := map[desync.ChunkID]bool{}
	for _, ch := range idx.Chunks {
		if seen[ch.ID] {
			continue
		}
		seen[ch.ID] = true
		o := obj{id: ch.ID, data: blob[ch.Start : ch.Start+ch.Size], present: true}
		if c.Chance(1, 4, "ssh.missing") {
			os.Remove(chunkFile(storeDir, ch.ID, uncRemote))
			o.present = false
		}
		objs = append(objs, o)
	}
	c.Class(fmt.Sprintf("cli ssh client=library n=%d cut=%v unc-remote=%v", n, cut >= 0, uncRemote))
	for _, kv := range env {
		k, v, _ := strings.Cut(kv, "=")
		os.Setenv(k, v)
		if k != "CASYNC_SSH_PATH" {
			defer os.Unsetenv(k)
		}
	}
	loc, _ := url.Parse(u)
	st, err := desync.NewRemoteSSHStore(loc, desync.StoreOptions{N: n})
	if err != nil {
		if cut >= 0 {
			c.Outcome("handshake-cut")
			return
		}
		c.Violate("handshake-failed", "RemoteSSHStore", "healthy link: %v", err)
		return
	}
	defer st.Close()
	dead := make([]bool, n) // session i: the server ends a session after answering "missing"
	head := 0
	for i := 0; i < c.Range(1, 12, "ssh.requests"); i++ {
		o := objs[c.Draw(len(objs), "ssh.req")]
		useHas := c.Chance(1, 4, "ssh.has")
		s := head
		head = (head + 1) % n
		var ch *desync.Chunk
		var has bool
		var err error
		if useHas {
			has, err = st.HasChunk(o.id)
		} else {
			ch, err = st.GetChunk(o.id)
		}
		c.SubEval(1)
		switch {
		case err == nil:
			if !o.present {
				c.Violate("missing-reported-present", "RemoteSSHStore", "request %d: a chunk that is not in the remote store was delivered / reported present", i)
				return
			}
			if useHas {
				if !has {
					c.Violate("present-reported-missing", "RemoteSSHStore", "request %d: HasChunk=false,nil for a present chunk", i)
					return
				}
			} else if b, derr := ch.Data(); derr != nil || !bytes.Equal(b, o.data) {
				c.Violate("data-altered", "RemoteSSHStore", "request %d returned a chunk that is not the stored data (%v)", i, derr)
				return
			}
		case isMissing(err):
			if o.present {
				c.Violate("failure-reported-as-missing", "RemoteSSHStore", "request %d: present chunk reported missing (session dead=%v, cut=%v)", i, dead[s], cut >= 0)
				return
			}
			dead[s] = true
		default:
			if cut < 0 && !dead[s] {
				kind := "present-chunk-failed"
				if !o.present {
					kind = "missing-reported-as-error"
				}
				c.Violate(kind, "RemoteSSHStore", "request %d (chunk present=%v) on a healthy session and link failed: %v", i, o.present, err)
				return
			}
			dead[s] = true
		}
	}
	c.Outcome("ok")
}

// C04 at process level: the commands that read an index (list-chunks, info) from a file or from standard input print
// what the file says and refuse truncated or inconsistent files; `make` writing the index to standard output emits the
// same bytes as into a file.
func runC04Proc(c *fw.Case) {
	c.Probe("process-level-case (real desync binary)")
	sha256mode := c.Chance(1, 4, "sha256")
	var pre []string
	flags := uint64(desync.CaFormatExcludeNoDump)
	if sha256mode {
		pre = []string{"--digest", "sha256"}
	} else {
		flags |= desync.CaFormatSHA512256
	}
	sz := genSizes(c)
	n := c.Draw(120, "chunks")
	r := c.Rand("index.seed")
	idx := desync.Index{Index: desync.FormatIndex{FeatureFlags: flags, ChunkSizeMin: sz.min, ChunkSizeAvg: sz.avg, ChunkSizeMax: sz.max}}
	var pos uint64
	for i := 0; i < n; i++ {
		var id desync.ChunkID
		for j := range id {
			id[j] = byte(r.IntN(256))
		}
		s := uint64(1 + r.IntN(int(sz.max)))
		idx.Chunks = append(idx.Chunks, desync.IndexChunk{ID: id, Start: pos, Size: s})
		pos += s
	}
	ri0 := &ref.Index{Flags: flags, Min: sz.min, Avg: sz.avg, Max: sz.max}
	for _, ch := range idx.Chunks {
		ri0.Chunks = append(ri0.Chunks, ref.Chunk{ID: [32]byte(ch.ID), Start: ch.Start, Size: ch.Size})
	}
	file := ref.EncodeCaibx(ri0)
	viaStdin := c.Bool("cli.stdin")
	c.Class(fmt.Sprintf("cli index readers chunks<=%d stdin=%v sha256=%v", (n+15)/16*16, viaStdin, sha256mode))
	c.NonTrivial()
	path := filepath.Join(c.Dir(), "x.caibx")
	run := func(b []byte, cmd string) (int, []byte, []byte, error) {
		args := append(append([]string{}, pre...), cmd)
		if viaStdin {
			return runDesyncStdin(b, append(args, "-")...)
		}
		if err := os.WriteFile(path, b, 0644); err != nil {
			return 0, nil, nil, err
		}
		return runDesync(append(args, path)...)
	}
	// the intact file
	exit, out, stderr, err := run(file, "list-chunks")
	if err != nil {
		c.HarnessError("%v", err)
		return
	}
	c.SubEval(1)
	if exit != 0 {
		c.Violate("valid-index-rejected", "desync list-chunks", "exit %d: %s", exit, tailBytes(stderr, 200))
		return
	}
	var want strings.Builder
	for _, ch := range idx.Chunks {
		want.WriteString(ch.ID.String() + "\n")
	}
	if string(out) != want.String() {
		c.Violate("roundtrip-differs", "desync list-chunks", "the printed list of %d bytes is not the table of the index (%d chunks)", len(out), n)
		return
	}
	exit, out, stderr, err = run(file, "info")
	if err != nil {
		c.HarnessError("%v", err)
		return
	}
	c.SubEval(1)
	var info struct {
		Total int    `json:"total"`
		Size  uint64 `json:"size"`
		Min   uint64 `json:"chunk-size-min"`
		Avg   uint64 `json:"chunk-size-avg"`
		Max   uint64 `json:"chunk-size-max"`
	}
	if exit != 0 || json.Unmarshal(out, &info) != nil {
		c.Violate("valid-index-rejected", "desync info", "exit %d, output %q: %s", exit, tailBytes(out, 100), tailBytes(stderr, 200))
		return
	}
	if info.Total != n || info.Size != pos || info.Min != sz.min || info.Avg != sz.avg || info.Max != sz.max {
		c.Violate("roundtrip-differs", "desync info", "info reports total=%d size=%d sizes=%d:%d:%d, the index has %d chunks, %d bytes, %d:%d:%d", info.Total, info.Size, info.Min, info.Avg, info.Max, n, pos, sz.min, sz.avg, sz.max)
		return
	}
	// malformed files are refused by both commands
	reject := func(b []byte, what string) bool {
		for _, cmd := range []string{"list-chunks", "info"} {
			exit, out, _, err := run(b, cmd)
			if err != nil {
				c.HarnessError("%v", err)
				return false
			}
			c.SubEval(1)
			if exit == 0 {
				c.Violate("malformed-index-accepted", "desync "+cmd+"/"+what[:strings.IndexByte(what+" ", ' ')], "%s, yet `desync %s` exits 0 and prints %d bytes", what, cmd, len(out))
				return false
			}
		}
		return true
	}
	for i := 0; i < 6; i++ {
		l := c.Draw(len(file), "cut.at")
		if i == 0 {
			l = len(file) - 1 - c.Draw(40, "cut.tail")
		}
		if l < 0 {
			l = 0
		}
		c.Fault("truncation")
		if !reject(file[:l], fmt.Sprintf("truncated to %d of %d bytes", l, len(file))) {
			return
		}
	}
	mut := func(f func(b []byte)) []byte {
		b := append([]byte(nil), file...)
		f(b)
		return b
	}
	item := func(i int) int { return 64 + 40*i }
	if n >= 2 {
		i := c.Draw(n-1, "swap.i")
		c.Fault("offsets-swapped")
		if !reject(mut(func(b []byte) {
			a, z := binary.LittleEndian.Uint64(b[item(i):]), binary.LittleEndian.Uint64(b[item(i+1):])
			binary.LittleEndian.PutUint64(b[item(i):], z)
			binary.LittleEndian.PutUint64(b[item(i+1):], a)
		}), fmt.Sprintf("offsets-decreasing (items %d and %d swapped)", i, i+1)) {
			return
		}
	}
	if n >= 1 {
		i := c.Draw(n, "bump.i")
		c.Fault("chunk-larger-than-max")
		if !reject(mut(func(b []byte) {
			for j := i; j < n; j++ {
				o := binary.LittleEndian.Uint64(b[item(j):])
				binary.LittleEndian.PutUint64(b[item(j):], o+sz.max)
			}
		}), fmt.Sprintf("chunk-exceeds-max (chunk %d enlarged by max)", i)) {
			return
		}
	}
	c.Fault("digest-flag-flipped")
	if !reject(mut(func(b []byte) {
		f := binary.LittleEndian.Uint64(b[16:])
		binary.LittleEndian.PutUint64(b[16:], f^desync.CaFormatSHA512256)
	}), "digest-flag flipped") {
		return
	}
	// make: the index written to standard output is the index written to a file, and the independent chunker's table
	if c.Bool("cli.make") {
		msz := sizes{1024, 4096, 16384}
		blob := genBlob(c, msz, 12*int(msz.max))
		blobFile := filepath.Join(c.Dir(), "blob")
		os.WriteFile(blobFile, blob, 0644)
		fileOut := filepath.Join(c.Dir(), "made.caibx")
		e1, so, se, err1 := runDesync(append(append([]string{}, pre...), "make", "-m", "1:4:16", "-", blobFile)...)
		e2, _, _, err2 := runDesync(append(append([]string{}, pre...), "make", "-m", "1:4:16", fileOut, blobFile)...)
		if err1 != nil || err2 != nil {
			c.HarnessError("%v %v", err1, err2)
			return
		}
		c.SubEval(1)
		fb, _ := os.ReadFile(fileOut)
		if e1 != 0 || e2 != 0 {
			c.Violate("write-failed", "desync make", "exit %d (stdout) / %d (file): %s", e1, e2, tailBytes(se, 200))
			return
		}
		if !bytes.Equal(so, fb) {
			c.Violate("stored-bytes-differ", "desync make -", "the index written to standard output (%d bytes) differs from the one written to a file (%d bytes)", len(so), len(fb))
			return
		}
		ri, perr := ref.ParseCaibx(so)
		if perr != nil {
			c.Violate("layout", "desync make -", "independent caibx parser rejects the bytes on standard output: %v", perr)
			return
		}
		wantChunks := ref.Chunks(blob, msz.min, msz.avg, msz.max, sha256mode)
		if len(ri.Chunks) != len(wantChunks) {
			c.Violate("roundtrip-differs", "desync make -", "index has %d chunks, the independent chunker finds %d", len(ri.Chunks), len(wantChunks))
			return
		}
		for i := range wantChunks {
			if ri.Chunks[i] != wantChunks[i] {
				c.Violate("roundtrip-differs", "desync make -", "chunk %d differs from the independent chunker", i)
				return
			}
		}
	}
	c.Outcome("ok")
}

// ---- C11 at process level: the chains the command line builds ----

// procMember is one store location given to the real binary: a local directory or a loopback HTTP server.
type procMember struct {
	name    string
	http    bool
	status  int   // 0 healthy, 1 answers 503 to everything, 2 dead (connection refused)
	content []int // per chunk: 0 present, 1 missing, 2 invalid (a valid object of other data under the chunk's name)
	g       *gateServer
	dir     string
	want    []string // requests the policy predicts (HTTP members that answer)
}

func (m *procMember) location() string {
	if m.http {
		return m.g.url()
	}
	return m.dir
}

// get is the documented outcome of asking this member: "ok", "missing" or "error".
func (m *procMember) get(i int, path string) string {
	if m.http && m.status == 2 {
		return "error"
	}
	if m.http {
		m.want = append(m.want, path)
	}
	if m.http && m.status == 1 {
		return "error"
	}
	return []string{"ok", "missing", "error"}[m.content[i]]
}

type procGroup struct {
	members []*procMember
	active  int
}

func (g *procGroup) get(i int, path string) string {
	for k := 0; k < len(g.members); k++ {
		switch r := g.members[g.active].get(i, path); r {
		case "ok", "missing":
			return r // all members are meant to hold the same chunks: a missing chunk is not failed over
		}
		g.active = (g.active + 1) % len(g.members)
	}
	return "error"
}

func runC11Proc(c *fw.Case) {
	c.Probe("process-level-case (real desync binary)")
	if c.ChanceAdded(1, 4, "chain.reload") {
		runC11ProcReload(c)
		return
	}
	sz := sizes{64, 256, 1024}
	r := c.Rand("blob.seed")
	blob := make([]byte, (3+r.IntN(10))*int(sz.avg))
	for i := range blob {
		blob[i] = byte(r.IntN(256))
	}
	idx := mkIndex(blob, sz)
	n := len(idx.Chunks)
	seen := map[desync.ChunkID]bool{}
	for _, ch := range idx.Chunks {
		if seen[ch.ID] {
			c.Outcome("duplicate-chunks-skip")
			return
		}
		seen[ch.ID] = true
	}
	if n == 0 {
		c.Outcome("empty")
		return
	}
	other := func(i int) []byte { return []byte(fmt.Sprintf("not chunk %d of this blob", i)) }
	paths := make([]string, n)
	for i, ch := range idx.Chunks {
		s := ch.ID.String()
		paths[i] = "/" + s[:4] + "/" + s + ".cacnk"
	}
	var groups []*procGroup
	var all []*procMember
	defer func() {
		for _, m := range all {
			if m.g != nil {
				m.g.close()
			}
		}
	}()
	ng := c.Range(1, 3, "chain.stores")
	lucky := -1
	if c.Bool("chain.lucky") {
		lucky = c.Draw(ng, "chain.lucky.at") // one group whose first member is complete and healthy
	}
	for gi := 0; gi < ng; gi++ {
		g := &procGroup{}
		nm := []int{1, 1, 1, 2, 2, 3}[c.Draw(6, "group.size")]
		for mi := 0; mi < nm; mi++ {
			m := &procMember{name: fmt.Sprintf("s%d.%d", gi, mi), http: c.Chance(2, 3, "member.http"), content: make([]int, n)}
			if m.http {
				m.status = []int{0, 0, 0, 1, 2}[c.Draw(5, "member.status")]
			}
			for i := range m.content {
				m.content[i] = []int{0, 0, 0, 0, 0, 0, 1, 1, 1, 2}[c.Draw(10, "member.content")]
			}
			if gi == lucky && mi == 0 {
				m.status = 0
				for i := range m.content {
					m.content[i] = 0
				}
			}
			if m.http {
				g2, err := newGateServer(false)
				if err != nil {
					c.HarnessError("%v", err)
					return
				}
				m.g = g2
				for i, ch := range idx.Chunks {
					switch m.content[i] {
					case 0:
						g2.addChunk(blob[ch.Start : ch.Start+ch.Size])
					case 2:
						z, _ := desync.Compress(other(i))
						g2.chunks[paths[i]] = z
					}
				}
				if m.status == 1 {
					g2.failFirst = 1 << 30
				}
			} else {
				m.dir = filepath.Join(c.Dir(), m.name+".store")
				os.MkdirAll(m.dir, 0755)
				for i, ch := range idx.Chunks {
					f := chunkFile(m.dir, ch.ID, false)
					os.MkdirAll(filepath.Dir(f), 0755)
					switch m.content[i] {
					case 0:
						z, _ := desync.Compress(blob[ch.Start : ch.Start+ch.Size])
						os.WriteFile(f, z, 0644)
					case 2:
						z, _ := desync.Compress(other(i))
						os.WriteFile(f, z, 0644)
					}
				}
			}
			g.members = append(g.members, m)
			all = append(all, m)
		}
		groups = append(groups, g)
	}
	// cache
	cacheMode := c.Draw(3, "cache.mode") // 0 none, 1 with repair (the default), 2 --cache-repair=false
	cacheDir := filepath.Join(c.Dir(), "cache.d")
	cache := make([]int, n) // 1 missing, 0 valid, 2 invalid
	for i := range cache {
		cache[i] = 1
	}
	if cacheMode != 0 {
		os.MkdirAll(cacheDir, 0755)
		for i, ch := range idx.Chunks {
			cache[i] = []int{1, 1, 1, 0, 0, 2}[c.Draw(6, "cache.content")]
			f := chunkFile(cacheDir, ch.ID, false)
			os.MkdirAll(filepath.Dir(f), 0755)
			switch cache[i] {
			case 0:
				z, _ := desync.Compress(blob[ch.Start : ch.Start+ch.Size])
				os.WriteFile(f, z, 0644)
			case 2:
				z, _ := desync.Compress(other(i))
				os.WriteFile(f, z, 0644)
			}
		}
	}
	// dead members stop listening now, their address stays in the command line
	var locs []string
	for _, g := range groups {
		var ms []string
		for _, m := range g.members {
			ms = append(ms, m.location())
			if m.http && m.status == 2 {
				m.g.close()
			}
		}
		locs = append(locs, strings.Join(ms, "|"))
	}
	// the documented policy, request by request in index order
	expect := "ok"
	failedAt := -1
	for i := 0; i < n && expect == "ok"; i++ {
		switch {
		case cacheMode != 0 && cache[i] == 0:
			continue // served from the cache, upstream untouched
		case cacheMode == 2 && cache[i] == 2:
			expect, failedAt = "error", i // an invalid cached chunk without repair is an error
			continue
		}
		res := "missing"
		for _, g := range groups {
			if res = g.get(i, paths[i]); res != "missing" {
				break
			}
		}
		if res != "ok" {
			expect, failedAt = res, i
		}
	}
	useExtract := c.Bool("cli.extract")
	out := filepath.Join(c.Dir(), "out")
	args := []string{"cat", "-n", "1", "-e", "0", "-b", "1ms"}
	if useExtract {
		args = []string{"extract", "-n", "1", "-e", "0", "-b", "1ms"}
	}
	for _, l := range locs {
		args = append(args, "-s", l)
	}
	switch cacheMode {
	case 1:
		args = append(args, "-c", cacheDir)
	case 2:
		args = append(args, "-c", cacheDir, "--cache-repair=false")
	}
	indexFile := filepath.Join(c.Dir(), "blob.caibx")
	writeIndexFile(indexFile, idx)
	args = append(args, indexFile, out)
	desc := func() string {
		var b strings.Builder
		for gi, g := range groups {
			for _, m := range g.members {
				fmt.Fprintf(&b, " %s[http=%v status=%d content=%v]", m.name, m.http, m.status, m.content)
			}
			if gi < len(groups)-1 {
				b.WriteString(" ;")
			}
		}
		fmt.Fprintf(&b, " cache(mode=%d)=%v", cacheMode, cache)
		return b.String()
	}
	c.Class(fmt.Sprintf("cli chain stores=%d members=%d cache=%d extract=%v expect=%s", len(groups), len(all), cacheMode, useExtract, expect))
	c.Note("real `desync %s`;%s; policy says %s (chunk %d)", strings.Join(args, " "), desc(), expect, failedAt)
	c.NonTrivial()
	for _, m := range all {
		if m.status != 0 || !m.http {
			continue
		}
		for _, v := range m.content {
			if v != 0 {
				c.Fault("member-chunk-missing-or-invalid")
				break
			}
		}
	}
	for _, m := range all {
		switch m.status {
		case 1:
			c.Fault("member-answers-503")
		case 2:
			c.Fault("member-dead")
		}
	}
	exit, _, stderr, err := runDesyncEnv(nil, 120*time.Second, args...)
	if errors.Is(err, errProcTimeout) {
		c.Probe("procsim-timeout-case-dropped")
		return
	}
	if err != nil {
		c.HarnessError("%v", err)
		return
	}
	c.SubEval(1)
	site := "desync " + args[0] + " (store chain)"
	if expect == "ok" {
		if exit != 0 {
			c.Violate("policy-violation", site, "the documented policy serves every chunk (%s), yet exit %d: %s", desc(), exit, tailBytes(stderr, 300))
			return
		}
		got, rerr := os.ReadFile(out)
		if rerr != nil || !bytes.Equal(got, blob) {
			c.Violate("wrong-data", site, "exit 0 but the output (%d bytes, %v) is not the blob (%d bytes)", len(got), rerr, len(blob))
			return
		}
	} else if exit == 0 {
		got, _ := os.ReadFile(out)
		c.Violate("policy-violation", site, "the documented policy ends in %q at chunk %d (%s), yet exit 0 (output equals the blob: %v)", expect, failedAt, desc(), bytes.Equal(got, blob))
		return
	}
	// requests seen by the members that answer: exactly those the policy predicts, in order (cat and extract -n 1
	// ask for the chunks one at a time in index order)
	for _, m := range all {
		if !m.http || m.status == 2 {
			continue
		}
		got := m.g.requests("GET")
		if strings.Join(got, " ") != strings.Join(m.want, " ") {
			c.Violate("policy-violation", site+"/requests", "member %s saw %d request(s), the documented policy predicts %d (%s): saw %v want %v", m.name, len(got), len(m.want), desc(), shortPaths(got), shortPaths(m.want))
			return
		}
	}
	// after a success the cache holds every chunk, valid
	if expect == "ok" && cacheMode != 0 {
		ls, _ := desync.NewLocalStore(cacheDir, desync.StoreOptions{})
		for i, ch := range idx.Chunks {
			if cacheMode == 2 && cache[i] == 2 {
				continue
			}
			if _, err := ls.GetChunk(ch.ID); err != nil {
				c.Violate("policy-violation", site+"/cache", "after a successful run chunk %d is not valid in the cache (was %d before; 0 valid, 1 missing, 2 invalid): %v", i, cache[i], err)
				return
			}
		}
	}
	c.Outcome(expect)
}

func shortPaths(p []string) []string {
	var o []string
	for _, s := range p {
		if len(s) > 14 {
			s = s[6:14]
		}
		o = append(o, s)
	}
	return o
}

// ---- C03 at process level: a damaged stored object never turns into output ----

func runC03Proc(c *fw.Case) {
	c.Probe("process-level-case (real desync binary)")
	sz := sizes{64, 256, 1024}
	r := c.Rand("blob.seed")
	blob := make([]byte, (3+r.IntN(10))*int(sz.avg))
	for i := range blob {
		blob[i] = byte(r.IntN(256))
	}
	idx := mkIndex(blob, sz)
	n := len(idx.Chunks)
	if n < 2 {
		c.Outcome("empty")
		return
	}
	unc := c.Chance(1, 3, "store.uncompressed")
	object := func(i int) []byte {
		b := blob[idx.Chunks[i].Start : idx.Chunks[i].Start+idx.Chunks[i].Size]
		if unc {
			return append([]byte(nil), b...)
		}
		z, _ := desync.Compress(b)
		return z
	}
	victim := c.Draw(n, "victim")
	good := object(victim)
	var bad []byte
	kind := c.Draw(7, "corruption")
	kinds := []string{"bit-flip", "truncated", "emptied", "other-chunk", "other-data", "wrong-format", "appended"}
	switch kind {
	case 0:
		bad = append([]byte(nil), good...)
		pos, bit := c.Draw(len(bad), "flip.pos"), c.Draw(8, "flip.bit")
		if !unc && pos == 4 && bit >= 6 {
			bit = 0 // these two bits make the pinned zstd decoder allocate up to 64 GiB before it rejects the frame
		}
		bad[pos] ^= 1 << bit
	case 1:
		bad = good[:c.Draw(len(good), "cut.at")]
	case 2:
		bad = []byte{}
	case 3:
		bad = object((victim + 1 + c.Draw(n-1, "other")) % n)
	case 4:
		bad = []byte(fmt.Sprintf("some other data %d", c.Draw(1000, "other.data")))
		if !unc {
			bad, _ = desync.Compress(bad)
		}
	case 5: // raw data in a compressed slot and vice versa
		b := blob[idx.Chunks[victim].Start : idx.Chunks[victim].Start+idx.Chunks[victim].Size]
		if unc {
			bad, _ = desync.Compress(b)
		} else {
			bad = append([]byte(nil), b...)
		}
	case 6:
		bad = append(append([]byte(nil), good...), byte(c.Draw(256, "tail")))
	}
	if bytes.Equal(bad, good) {
		c.Outcome("corruption-is-identity")
		return
	}
	c.Fault("stored-object-" + kinds[kind])
	// the store: a directory, a loopback HTTP server, or the real chunk-server in front of the directory
	storeDir := filepath.Join(c.Dir(), "store.d")
	for i, ch := range idx.Chunks {
		f := chunkFile(storeDir, ch.ID, unc)
		os.MkdirAll(filepath.Dir(f), 0755)
		o := object(i)
		if i == victim {
			o = bad
		}
		os.WriteFile(f, o, 0644)
	}
	backend := c.Draw(3, "backend")
	location := storeDir
	switch backend {
	case 1:
		g, err := newGateServer(false)
		if err != nil {
			c.HarnessError("%v", err)
			return
		}
		defer g.close()
		for i, ch := range idx.Chunks {
			o := object(i)
			if i == victim {
				o = bad
			}
			s := ch.ID.String()
			ext := ".cacnk"
			if unc {
				ext = ""
			}
			g.chunks["/"+s[:4]+"/"+s+ext] = o
		}
		location = g.url()
	case 2:
		sargs := []string{"chunk-server", "-s", storeDir}
		if unc {
			sargs = append(sargs, "-u")
			// the server reads its own store through the config as well
		}
		cfgS := filepath.Join(c.Dir(), "server-config.json")
		os.WriteFile(cfgS, []byte(fmt.Sprintf(`{"store-options": {%q: {"uncompressed": %v}}}`, storeDir, unc)), 0644)
		stop, addr, err := startServer(append([]string{"--config", cfgS}, sargs...)...)
		if errors.Is(err, errProcTimeout) {
			c.Probe("procsim-timeout-case-dropped")
			return
		}
		if err != nil {
			c.HarnessError("%v", err)
			return
		}
		defer stop()
		location = "http://" + addr + "/"
	}
	// client configuration: the store's format, decoys that must not apply, flags that must not disable verification
	disabled := c.Chance(1, 8, "verify.disabled")
	cfgFile := filepath.Join(c.Dir(), "config.json")
	// a compressed, verified store needs no entry of its own; and a directory may be named with a trailing slash
	if backend == 0 && c.ChanceAdded(1, 3, "cfg.trailing-slash") {
		location += "/"
	}
	entries := []string{fmt.Sprintf(`%q: {"uncompressed": %v, "skip-verify": %v}`, location, unc, disabled)}
	if !unc && !disabled && c.ChanceAdded(1, 2, "cfg.no-own-entry") {
		entries = nil
	}
	if c.Bool("cfg.decoy") {
		entries = append(entries, fmt.Sprintf(`%q: {"skip-verify": true}`, filepath.Join(c.Dir(), "elsewhere")), `"http://198.51.100.7/*": {"skip-verify": true, "uncompressed": true}`)
	}
	// near misses: entries that switch verification off for locations that are not this store - a prefix of it, a
	// sibling with a common prefix, its parent, a sub-path, another port, patterns that do not match it
	if c.ChanceAdded(1, 2, "cfg.nearmiss") {
		var cands []string
		if strings.HasPrefix(location, "http") {
			base := strings.TrimSuffix(location, "/")
			cands = []string{base + "/sub", base + "/sub/", base + "0/", strings.Replace(base, "127.0.0.1", "127.0.0.2", 1) + "/", base + "/*", "https" + strings.TrimPrefix(base, "http") + "/", base[:len(base)-1] + "?x/"}
		} else {
			l := strings.TrimSuffix(location, "/")
			cands = []string{l + "2", strings.TrimSuffix(l, ".d"), filepath.Dir(l), l + "/sub", filepath.Join(filepath.Dir(l), "*", "store.d"), l + "/*", filepath.Join(filepath.Dir(l), "stor?.x")}
		}
		for i := 0; i < 3; i++ {
			p := cands[c.Draw(len(cands), "cfg.nearmiss.pick")]
			if i == 0 && c.Bool("cfg.nearmiss.children") {
				p = strings.TrimSuffix(location, "/") + "/*" // "everything below this location" is not the location
			}
			if locationMatchRef(p, location) {
				continue // would legitimately apply
			}
			e := fmt.Sprintf(`%q: {"skip-verify": true, "uncompressed": %v}`, p, unc)
			dup := false
			for _, x := range entries {
				if strings.HasPrefix(x, strings.SplitN(e, ":", 2)[0]+":") || x == e {
					dup = true
				}
			}
			if !dup && !strings.Contains(strings.Join(entries, ""), fmt.Sprintf("%q:", p)) {
				entries = append(entries, e)
			}
		}
	}
	os.WriteFile(cfgFile, []byte(`{"store-options": {`+strings.Join(entries, ", ")+`}}`), 0644)
	consumer := c.Draw(3, "consumer")
	out := filepath.Join(c.Dir(), "out")
	cacheDir := filepath.Join(c.Dir(), "cache.d")
	os.MkdirAll(cacheDir, 0755)
	indexFile := filepath.Join(c.Dir(), "blob.caibx")
	writeIndexFile(indexFile, idx)
	nflag := []string{"1", "3"}[c.Draw(2, "n")]
	args := []string{"--config", cfgFile}
	switch consumer {
	case 0:
		args = append(args, "extract", "-n", nflag, "-e", "0", "-s", location)
	case 1:
		args = append(args, "cat", "-n", nflag, "-e", "0", "-s", location)
	case 2:
		args = append(args, "cache", "-n", nflag, "-e", "0", "-s", location, "-c", cacheDir)
	}
	if c.Bool("flag.trust") {
		args = append(args, "-t")
	}
	if consumer != 2 && c.Bool("flag.cache") {
		args = append(args, "-c", cacheDir)
	}
	args = append(args, indexFile)
	if consumer != 2 {
		args = append(args, out)
	}
	c.Class(fmt.Sprintf("cli damaged-object %s unc=%v backend=%d consumer=%d disabled=%v", kinds[kind], unc, backend, consumer, disabled))
	c.Note("real `desync %s`; object of chunk %d of %d %s (%d -> %d bytes)", strings.Join(args, " "), victim, n, kinds[kind], len(good), len(bad))
	c.NonTrivial()
	limit := 120 * time.Second
	if disabled {
		// with verification switched off an emptied uncompressed object makes IndexPos.Read spin (it re-fetches the
		// zero-length chunk forever): outside what C03 promises, so do not wait for it
		limit = 10 * time.Second
	}
	exit, _, stderr, err := runDesyncEnv(nil, limit, args...)
	if errors.Is(err, errProcTimeout) {
		if disabled {
			c.Outcome("verification-disabled")
			return
		}
		c.Probe("procsim-timeout-case-dropped")
		return
	}
	if err != nil {
		c.HarnessError("%v", err)
		return
	}
	c.SubEval(1)
	if disabled {
		c.Outcome("verification-disabled")
		return
	}
	if exit != 0 {
		c.Outcome("error-reported")
		_ = stderr
		return
	}
	site := "desync " + []string{"extract", "cat", "cache"}[consumer]
	if consumer == 2 || strings.Contains(strings.Join(args, " "), " -c ") {
		// whatever entered the cache must be the chunk
		ls, _ := desync.NewLocalStore(cacheDir, desync.StoreOptions{SkipVerify: true})
		for i, ch := range idx.Chunks {
			got, err := ls.GetChunk(ch.ID)
			if err != nil {
				if consumer == 2 {
					c.Violate("pipeline-emitted-wrong-bytes", site, "exit 0 but chunk %d is not in the cache: %v", i, err)
					return
				}
				continue
			}
			b, derr := got.Data()
			if derr != nil || !bytes.Equal(b, blob[ch.Start:ch.Start+ch.Size]) {
				c.Violate("pipeline-emitted-wrong-bytes", site+"/cache", "exit 0 and the cache holds an object for chunk %d that is not the chunk (%v); stored object was %s", i, derr, kinds[kind])
				return
			}
		}
	}
	if consumer != 2 {
		got, _ := os.ReadFile(out)
		if !bytes.Equal(got, blob) {
			c.Violate("pipeline-emitted-wrong-bytes", site, "exit 0 but the output (%d bytes) differs from the blob (%d bytes); the stored object of chunk %d was %s", len(got), len(blob), victim, kinds[kind])
			return
		}
	}
	c.Outcome("ok")
}

// ---- file-system calls of the real binary failing (full disk, I/O error, permission) ----

var sysErrnoNames = map[syscall.Errno]string{syscall.ENOSPC: "ENOSPC", syscall.EIO: "EIO", syscall.EDQUOT: "EDQUOT", syscall.EACCES: "EACCES", syscall.EPERM: "EPERM", syscall.EROFS: "EROFS"}

// sysFaultRuns runs `desync args...` under the tracer, first untouched (it must succeed and verify() must be happy),
// then several times with one drawn file-system call failing - once, or from then on for every call that needs space.
// The command may do whatever it likes with the error except exit 0 with a result that verify() rejects.
func sysFaultRuns(c *fw.Case, site string, args []string, reset func(), verify func() string) bool {
	c.Probe("process-level-case (real desync binary, ptrace)")
	dir := c.Dir()
	reset()
	r0, err := runTraced(0, dir, 2*time.Minute, args...)
	if err != nil {
		c.HarnessError("%v", err)
		return false
	}
	if r0.timeout {
		c.Probe("procsim-timeout-case-dropped")
		return false
	}
	if why := verify(); r0.exit != 0 || r0.signaled || why != "" {
		c.Violate("command-failed", site, "fault-free run under the tracer: exit %d signaled=%v %s (`desync %s`)", r0.exit, r0.signaled, why, strings.Join(args, " "))
		return false
	}
	S := len(r0.points)
	if S == 0 {
		return true
	}
	c.NonTrivial()
	for i := 0; i < 8; i++ {
		k := 1 + c.Draw(S, "sysfault.k")
		name := r0.points[k-1]
		f := &sysFault{}
		if spaceCall(name) {
			f.errno = []syscall.Errno{syscall.ENOSPC, syscall.EIO, syscall.EDQUOT}[c.Draw(3, "sysfault.errno")]
			f.sticky = c.Bool("sysfault.sticky")
		} else {
			f.errno = []syscall.Errno{syscall.EIO, syscall.EACCES, syscall.EPERM, syscall.EROFS}[c.Draw(4, "sysfault.errno")]
		}
		reset()
		r, err := runTracedFault(k, f, dir, 2*time.Minute, args...)
		if err != nil {
			c.HarnessError("%v", err)
			return false
		}
		if r.timeout {
			c.Probe("procsim-timeout-case-dropped")
			return true
		}
		if r.killedAt == "" || r.signaled {
			continue // another interleaving of the threads ended before its k-th call
		}
		c.SubEval(1)
		kind := "syscall-" + sysErrnoNames[f.errno]
		if f.sticky {
			kind += "-from-then-on"
		}
		c.Fault(kind)
		if r.exit == 0 {
			if why := verify(); why != "" {
				c.Violate("syscall-error-masked", site, "file-system call %d of %d (%s) failed with %s (sticky=%v), `desync %s` exited 0, but %s", k, S, r.killedAt, sysErrnoNames[f.errno], f.sticky, strings.Join(args, " "), why)
				return false
			}
		}
	}
	return true
}

// runSysFaultProc builds the scenario for one property and hands it to sysFaultRuns.
func runSysFaultProc(c *fw.Case, prop string) {
	dir := c.Dir()
	sz := sizes{64, 256, 1024}
	blob := genBlob(c, sz, c.Range(3, 14, "sf.chunks")*int(sz.avg))
	idx := mkIndex(blob, sz)
	if len(idx.Chunks) == 0 {
		c.Outcome("empty")
		return
	}
	src := filepath.Join(dir, "src.store")
	if err := fillLocalStore(src, blob, idx.Chunks); err != nil {
		c.HarnessError("%v", err)
		return
	}
	indexFile := filepath.Join(dir, "blob.caibx")
	out := filepath.Join(dir, "out")
	target := filepath.Join(dir, "target.store")
	blobFile := filepath.Join(dir, "blob")
	made := filepath.Join(dir, "made.caibx")
	n := []string{"1", "3"}[c.Draw(2, "sf.n")]
	var prior []byte
	if c.Bool("sf.prior") {
		prior = editBlob(c, blob, "prior")
	}
	clean := func() {
		os.RemoveAll(target)
		os.MkdirAll(target, 0755)
		os.RemoveAll(out)
		os.Remove(made)
		os.WriteFile(blobFile, blob, 0644)
		writeIndexFile(indexFile, idx)
		if ents, err := os.ReadDir(dir); err == nil {
			for _, e := range ents {
				if strings.HasPrefix(e.Name(), ".") {
					os.RemoveAll(filepath.Join(dir, e.Name()))
				}
			}
		}
	}
	storeComplete := func() string {
		if _, why := validateStoreDir(target); why != "" {
			return why
		}
		ls, _ := desync.NewLocalStore(target, desync.StoreOptions{})
		for i, ch := range idx.Chunks {
			got, err := ls.GetChunk(ch.ID)
			if err != nil {
				return fmt.Sprintf("chunk %d cannot be read back from the target store: %v", i, err)
			}
			if b, err := got.Data(); err != nil || !bytes.Equal(b, blob[ch.Start:ch.Start+ch.Size]) {
				return fmt.Sprintf("chunk %d in the target store is not the chunk", i)
			}
		}
		return ""
	}
	var args []string
	var reset func()
	var verify func() string
	site := ""
	switch prop {
	case "C01":
		inPlace := c.Bool("sf.inplace")
		args = []string{"extract", "-n", n, "-s", src, indexFile, out}
		site = "desync extract (failing system call)"
		if inPlace {
			args = []string{"extract", "--in-place", "-n", n, "-s", src, indexFile, out}
			site = "desync extract --in-place (failing system call)"
		}
		reset = func() {
			clean()
			if prior != nil {
				os.WriteFile(out, prior, 0644)
			}
		}
		verify = func() string {
			got, err := os.ReadFile(out)
			if err != nil || !bytes.Equal(got, blob) {
				return fmt.Sprintf("the destination (%d bytes, %v) is not the blob (%d bytes)", len(got), err, len(blob))
			}
			return ""
		}
	case "C09":
		off := c.Draw(len(blob), "sf.off")
		length := 1 + c.Draw(len(blob)-off, "sf.len")
		args = []string{"cat", "-n", n, "-s", src, "-o", strconv.Itoa(off), "-l", strconv.Itoa(length), indexFile, out}
		site = "desync cat (failing system call)"
		reset = clean
		verify = func() string {
			got, err := os.ReadFile(out)
			if err != nil || !bytes.Equal(got, blob[off:off+length]) {
				return fmt.Sprintf("the output file (%d bytes, %v) is not the requested range (%d bytes)", len(got), err, length)
			}
			return ""
		}
	case "C06":
		kind := c.Draw(3, "sf.cmd")
		switch kind {
		case 0:
			args = []string{"chop", "-n", n, "-s", target, indexFile, blobFile}
		case 1:
			args = []string{"cache", "-n", n, "-s", src, "-c", target, indexFile}
		case 2:
			args = []string{"make", "-n", n, "-m", "1:4:16", "-s", target, made, blobFile}
		}
		site = "desync " + args[0] + " (failing system call)"
		reset = clean
		verify = storeComplete
		if kind == 2 {
			msz := sizes{1024, 4096, 16384}
			blob = genBlob(c, msz, 6*int(msz.max))
			idx = mkIndex(blob, msz)
			if len(idx.Chunks) == 0 {
				c.Outcome("empty")
				return
			}
			verify = func() string {
				if why := storeComplete(); why != "" {
					return why
				}
				f, err := os.Open(made)
				if err != nil {
					return "no index file was written"
				}
				defer f.Close()
				got, err := desync.IndexFromReader(f)
				if err != nil {
					return "the index file is unreadable: " + err.Error()
				}
				if cls, d := compareTables(got.Chunks, idx.Chunks); cls != "" {
					return "the index does not describe the input: " + d
				}
				return ""
			}
		}
	case "C05":
		srcTree := filepath.Join(dir, "tree")
		if _, err := genTree(c, srcTree, 12); err != nil {
			c.HarnessError("%v", err)
			return
		}
		want, err := snapshot(srcTree)
		if err != nil {
			c.HarnessError("%v", err)
			return
		}
		archive := filepath.Join(dir, "tree.catar")
		if exit, _, _, err := runDesync("tar", archive, srcTree); err != nil || exit != 0 {
			c.HarnessError("tar for the scenario: %v exit %d", err, exit)
			return
		}
		args = []string{"untar", archive, out}
		site = "desync untar (failing system call)"
		reset = func() {
			os.RemoveAll(out)
			os.MkdirAll(out, 0755)
		}
		verify = func() string {
			got, err := snapshot(out)
			if err != nil {
				return err.Error()
			}
			if cat, d := diffTrees(want, got, map[string]bool{}); cat != "" {
				return "the unpacked tree differs (" + cat + "): " + d
			}
			return ""
		}
	}
	c.Class(fmt.Sprintf("cli failing-syscall %s n=%s", args[0], n))
	c.Note("real `desync %s` with one file-system call failing", strings.Join(args, " "))
	if sysFaultRuns(c, site, args, reset, verify) && !c.Violated() {
		c.Outcome("ok")
	}
}

// ---- C19 at process level: the commands that decode files survive faulted input ----

// runDesyncLimited runs the binary with its address space capped (a decoder that believes a bogus size field dies with
// "fatal error: out of memory" instead of quietly reserving terabytes).
func runDesyncLimited(limit time.Duration, args ...string) (exit int, stderr []byte, err error) {
	ctx, cancel := context.WithTimeout(context.Background(), limit)
	defer cancel()
	sh := append([]string{"-c", `ulimit -v 4194304; exec "$0" "$@"`, desyncBin()}, args...)
	cmd := exec.CommandContext(ctx, "/bin/sh", sh...)
	var e bytes.Buffer
	cmd.Stdout, cmd.Stderr = io.Discard, &e
	cmd.Env = append(os.Environ(), "HOME=/nonexistent-verif-home")
	cmd.WaitDelay = 5 * time.Second
	rerr := cmd.Run()
	if ctx.Err() != nil {
		return -1, e.Bytes(), errProcTimeout
	}
	if ee, ok := rerr.(*exec.ExitError); ok {
		return ee.ExitCode(), e.Bytes(), nil
	}
	return 0, e.Bytes(), rerr
}

func runC19Proc(c *fw.Case) {
	c.Probe("process-level-case (real desync binary)")
	dir := c.Dir()
	r := c.Rand("fault.seed")
	var valid []byte
	var cmds [][]string
	file := filepath.Join(dir, "input")
	empty := filepath.Join(dir, "empty.store")
	os.MkdirAll(empty, 0755)
	isIndex := c.Bool("c19.index")
	if isIndex {
		sz := genSizes(c)
		idx := desync.Index{Index: desync.FormatIndex{FeatureFlags: desync.CaFormatExcludeNoDump | desync.CaFormatSHA512256, ChunkSizeMin: sz.min, ChunkSizeAvg: sz.avg, ChunkSizeMax: sz.max}}
		var pos uint64
		for i, n := 0, c.Draw(40, "chunks"); i < n; i++ {
			var id desync.ChunkID
			for j := range id {
				id[j] = byte(r.IntN(256))
			}
			s := uint64(1 + r.IntN(int(sz.max)))
			idx.Chunks = append(idx.Chunks, desync.IndexChunk{ID: id, Start: pos, Size: s})
			pos += s
		}
		var buf bytes.Buffer
		idx.WriteTo(&buf)
		valid = buf.Bytes()
		blobFile := filepath.Join(dir, "blob")
		os.WriteFile(blobFile, []byte("not the blob"), 0644)
		// only the commands that just parse: extract, cat and verify-index go on to allocate a buffer of the chunk size
		// maximum the header declares, which is beyond "parsing" (noted in DESIGN.md, no listed property covers it)
		_ = blobFile
		cmds = [][]string{{"list-chunks", file}, {"info", file}}
	} else {
		src := filepath.Join(dir, "src")
		if _, err := genTree(c, src, 10); err != nil {
			c.HarnessError("%v", err)
			return
		}
		b, err := tarTree(src)
		if err != nil {
			c.HarnessError("%v", err)
			return
		}
		valid = b
		cmds = [][]string{{"mtree", file}, {"untar", "--no-same-owner", file, filepath.Join(dir, "unpacked")}}
	}
	var offs []int
	for _, o := range elementOffsets(valid) {
		if o+16 <= len(valid) {
			offs = append(offs, o)
		}
	}
	c.Class(fmt.Sprintf("cli decoders index=%v len<=%d", isIndex, (len(valid)+1023)/1024*1024))
	c.NonTrivial()
	for i := 0; i < 8; i++ {
		b := append([]byte(nil), valid...)
		what := ""
		switch k := c.Draw(4, "fault.kind"); {
		case k == 0 && len(b) > 0:
			l := c.Draw(len(b), "cut.at")
			b, what = b[:l], fmt.Sprintf("truncated to %d of %d bytes", l, len(valid))
			c.Fault("truncation")
		case k == 1 && len(offs) > 0:
			o := offs[c.Draw(len(offs), "size.at")]
			orig := binary.LittleEndian.Uint64(valid[o:])
			vals := []uint64{0, 1, 15, 16, 17, 24, 40, 47, 48, 64, orig - 1, orig + 1, orig + 24, 1 << 20, 1 << 31, 1 << 36, 1 << 50, 1 << 63, ^uint64(0), ^uint64(0) - 15}
			v := vals[c.Draw(len(vals), "size.val")]
			binary.LittleEndian.PutUint64(b[o:], v)
			what = fmt.Sprintf("size field at offset %d set to %d (was %d)", o, v, orig)
			c.Fault("size-field")
		case k == 2 && len(offs) > 0:
			o := offs[c.Draw(len(offs), "type.at")]
			types := []uint64{desync.CaFormatEntry, desync.CaFormatXAttr, desync.CaFormatFilename, desync.CaFormatSymlink, desync.CaFormatDevice, desync.CaFormatPayload, desync.CaFormatGoodbye, desync.CaFormatIndex, desync.CaFormatTable, 0x1234}
			types = append(types, desync.CaFormatUser, desync.CaFormatGroup, desync.CaFormatACLUser, desync.CaFormatACLGroup, desync.CaFormatACLGroupObj, desync.CaFormatACLDefault, desync.CaFormatACLDefaultUser, desync.CaFormatACLDefaultGroup, desync.CaFormatFCaps, desync.CaFormatSELinux)
			t := types[c.Draw(len(types), "type.val")]
			binary.LittleEndian.PutUint64(b[o+8:], t)
			what = fmt.Sprintf("type field at offset %d replaced by %x", o, t)
			if c.Bool("type.size") {
				v := []uint64{16, 17, 24, 25, 31, 32, 33, 39, 40, 41, 47, 48, 49, 56, 63, 64, 65, 72}[c.Draw(18, "type.size.val")]
				binary.LittleEndian.PutUint64(b[o:], v)
				what += fmt.Sprintf(" and its size set to %d", v)
			}
			c.Fault("type-field")
		default:
			if len(b) == 0 {
				continue
			}
			p := c.Draw(len(b), "flip.at")
			b[p] ^= 1 << uint(c.Draw(8, "flip.bit"))
			what = fmt.Sprintf("bit flipped in byte %d", p)
			c.Fault("bit-flip")
		}
		if err := os.WriteFile(file, b, 0644); err != nil {
			c.HarnessError("%v", err)
			return
		}
		for _, cmd := range cmds {
			os.RemoveAll(filepath.Join(dir, "unpacked"))
			os.MkdirAll(filepath.Join(dir, "unpacked"), 0755)
			exit, stderr, err := runDesyncLimited(60*time.Second, cmd...)
			if errors.Is(err, errProcTimeout) {
				c.Probe("procsim-timeout-case-dropped")
				continue
			}
			if err != nil {
				c.HarnessError("%v", err)
				return
			}
			c.SubEval(1)
			se := string(stderr)
			if exit == 2 || strings.Contains(se, "panic:") || strings.Contains(se, "fatal error:") || strings.Contains(se, "goroutine 1 [") {
				first := se
				if i := strings.Index(se, "panic:"); i >= 0 {
					first = se[i:]
				} else if i := strings.Index(se, "fatal error:"); i >= 0 {
					first = se[i:]
				}
				if len(first) > 200 {
					first = first[:200]
				}
				c.Violate("panic", "desync "+cmd[0], "%s: `desync %s` crashed (exit %d): %s", what, cmd[0], exit, strings.ReplaceAll(first, "\n", " | "))
				return
			}
		}
	}
	c.Outcome("ok")
}

// runC11ProcReload: `desync chunk-server --store-file` swaps its store chain on SIGHUP "under load as well". A request
// that is in flight in the old chain when the reload is asked for completes correctly, a chunk both chains hold never
// stops being served, and afterwards the new chain answers.
func runC11ProcReload(c *fw.Case) {
	r := c.Rand("reload.seed")
	mk := func() []byte {
		b := make([]byte, 50+r.IntN(2000))
		for i := range b {
			b[i] = byte(r.IntN(256))
		}
		return b
	}
	onlyOld, both, onlyNew := mk(), mk(), mk()
	gOld, err := newGateServer(false)
	if err != nil {
		c.HarnessError("%v", err)
		return
	}
	defer gOld.close()
	gNew, err := newGateServer(false)
	if err != nil {
		c.HarnessError("%v", err)
		return
	}
	defer gNew.close()
	idOld, idBoth := gOld.addChunk(onlyOld), gOld.addChunk(both)
	gNew.addChunk(both)
	idNew := gNew.addChunk(onlyNew)
	storeFile := filepath.Join(c.Dir(), "stores.json")
	useCache := c.Bool("reload.cache")
	cacheOld, cacheNew := filepath.Join(c.Dir(), "cache.old"), filepath.Join(c.Dir(), "cache.new")
	os.MkdirAll(cacheOld, 0755)
	os.MkdirAll(cacheNew, 0755)
	write := func(url, cache string) {
		if useCache {
			os.WriteFile(storeFile, []byte(fmt.Sprintf(`{"stores": [%q], "cache": %q}`, url, cache)), 0644)
		} else {
			os.WriteFile(storeFile, []byte(fmt.Sprintf(`{"stores": [%q]}`, url)), 0644)
		}
	}
	write(gOld.url(), cacheOld)
	unc := c.Bool("reload.uncompressed")
	args := []string{"chunk-server", "--store-file", storeFile, "-e", "0"}
	if unc {
		args = append(args, "-u")
	}
	c.Class(fmt.Sprintf("cli chunk-server reload cache=%v unc=%v", useCache, unc))
	c.Note("real `desync %s`, SIGHUP while a request is held in the old upstream", strings.Join(args, " "))
	c.NonTrivial()
	stop, addr, proc, err := startServerProc(args...)
	if errors.Is(err, errProcTimeout) {
		c.Probe("procsim-timeout-case-dropped")
		return
	}
	if err != nil {
		c.HarnessError("%v", err)
		return
	}
	defer stop()
	u, _ := url.Parse("http://" + addr + "/")
	cl, err := desync.NewRemoteHTTPStore(u, desync.StoreOptions{Uncompressed: unc, ErrorRetry: 0, Timeout: 30 * time.Second})
	if err != nil {
		c.HarnessError("%v", err)
		return
	}
	site := "desync chunk-server --store-file"
	get := func(id desync.ChunkID, want []byte) string {
		ch, err := cl.GetChunk(id)
		if err != nil {
			if isMissing(err) {
				return "missing"
			}
			return "error: " + err.Error()
		}
		if b, derr := ch.Data(); derr != nil || !bytes.Equal(b, want) {
			return "wrong data"
		}
		return "ok"
	}
	// hold the upstream request for the chunk only the old chain has
	gOld.holdKind, gOld.holdAt = "GET", 1
	inflight := make(chan string, 1)
	go func() { inflight <- get(idOld, onlyOld) }()
	select {
	case <-gOld.held:
	case res := <-inflight:
		c.Violate("policy-violation", site, "the request for a chunk of the first chain ended before reaching its upstream: %s", res)
		return
	case <-time.After(20 * time.Second):
		c.Probe("procsim-timeout-case-dropped")
		close(gOld.release)
		return
	}
	// reload while it is in flight, with a steady load on the chunk both chains hold
	write(gNew.url(), cacheNew)
	proc.Signal(syscall.SIGHUP)
	c.Fault("store-reloaded-under-load")
	stopLoad := make(chan struct{})
	loadRes := make(chan string, 1)
	go func() {
		n := 0
		for {
			select {
			case <-stopLoad:
				loadRes <- ""
				return
			default:
			}
			if res := get(idBoth, both); res != "ok" {
				loadRes <- fmt.Sprintf("request %d for a chunk both chains hold: %s", n, res)
				return
			}
			n++
		}
	}()
	time.Sleep(time.Duration(c.Draw(30, "reload.delay.ms")) * time.Millisecond)
	close(gOld.release)
	res := <-inflight
	c.SubEval(1)
	if res != "ok" {
		close(stopLoad)
		<-loadRes
		c.Violate("policy-violation", site+"/in-flight", "the request that was in flight in the old chain when the reload was requested ended with: %s", res)
		return
	}
	// the new chain takes over
	deadline := time.Now().Add(15 * time.Second)
	took := false
	for time.Now().Before(deadline) {
		if get(idNew, onlyNew) == "ok" {
			took = true
			break
		}
		time.Sleep(5 * time.Millisecond)
	}
	close(stopLoad)
	if lr := <-loadRes; lr != "" {
		c.Violate("policy-violation", site+"/load", "%s", lr)
		return
	}
	if !took {
		c.Probe("reload-not-observed-in-time")
		return
	}
	c.SubEval(1)
	if res := get(idOld, onlyOld); res != "missing" && !(useCache && res == "ok" && false) {
		c.Violate("policy-violation", site+"/after", "after the reload a chunk only the old chain had is answered with %q instead of missing", res)
		return
	}
	c.Outcome("ok")
}

// ---- C02 at process level: `desync chunk` and `desync make -n N` against the independent chunker ----

func runC02Proc(c *fw.Case) {
	c.Probe("process-level-case (real desync binary)")
	triples := [][3]int{{1, 4, 16}, {1, 1, 4}, {2, 2, 2}, {1, 2, 8}, {4, 16, 64}, {1, 16, 16}}
	t := triples[c.Draw(len(triples), "sizes")]
	sz := sizes{uint64(t[0]) * 1024, uint64(t[1]) * 1024, uint64(t[2]) * 1024}
	blob := genBlob(c, sz, c.Range(1, 24, "maxchunks")*int(sz.max))
	if c.Chance(1, 6, "zerotail") {
		// a long zero run reaching almost to the end plus a short tail: workers on different grids never line up
		blob = append(append(blob, make([]byte, c.Range(2, 12, "zeros")*int(sz.max)+c.Draw(int(sz.max), "zeros.extra"))...), []byte("tail of the file")...)
	}
	sha256mode := c.Chance(1, 4, "sha256")
	var pre []string
	if sha256mode {
		pre = []string{"--digest", "sha256"}
	}
	want := ref.Chunks(blob, sz.min, sz.avg, sz.max, sha256mode)
	file := filepath.Join(c.Dir(), "blob")
	os.WriteFile(file, blob, 0644)
	m := fmt.Sprintf("%d:%d:%d", t[0], t[1], t[2])
	c.Class(fmt.Sprintf("cli chunk/make sizes=%s len<=%dK sha256=%v", m, (len(blob)+65535)/65536*64, sha256mode))
	c.NonTrivial()
	// desync chunk prints start, length and id of every chunk
	exit, out, stderr, err := runDesync(append(append([]string{}, pre...), "chunk", "-m", m, file)...)
	if err != nil {
		c.HarnessError("%v", err)
		return
	}
	c.SubEval(1)
	if exit != 0 {
		c.Violate("index-mismatch", "desync chunk/failed", "exit %d: %s", exit, tailBytes(stderr, 200))
		return
	}
	var wantOut strings.Builder
	for _, ch := range want {
		fmt.Fprintf(&wantOut, "%d\t%d\t%x\n", ch.Start, ch.Size, ch.ID)
	}
	if string(out) != wantOut.String() {
		c.Violate("index-mismatch", "desync chunk/differs", "`desync chunk -m %s` on %d bytes prints %d lines, the rule gives %d chunks; output differs", m, len(blob), strings.Count(string(out), "\n"), len(want))
		return
	}
	// desync make with several worker counts writes the same table
	for _, n := range []int{1, c.Range(2, 5, "n.a"), c.Range(6, 16, "n.b")} {
		idxFile := filepath.Join(c.Dir(), fmt.Sprintf("blob.n%d.caibx", n))
		exit, _, stderr, err := runDesync(append(append([]string{}, pre...), "make", "-n", strconv.Itoa(n), "-m", m, idxFile, file)...)
		if err != nil {
			c.HarnessError("%v", err)
			return
		}
		c.SubEval(1)
		if exit != 0 {
			c.Violate("index-mismatch", "desync make/failed", "n=%d: exit %d: %s", n, exit, tailBytes(stderr, 200))
			return
		}
		b, _ := os.ReadFile(idxFile)
		ri, perr := ref.ParseCaibx(b)
		if perr != nil {
			c.Violate("index-mismatch", "desync make/unreadable", "n=%d: the independent parser rejects the index: %v", n, perr)
			return
		}
		if ri.Min != sz.min || ri.Avg != sz.avg || ri.Max != sz.max || len(ri.Chunks) != len(want) {
			c.Violate("index-mismatch", "desync make/differs", "n=%d sizes=%s len=%d: index has %d chunks (sizes %d:%d:%d), the rule gives %d", n, m, len(blob), len(ri.Chunks), ri.Min, ri.Avg, ri.Max, len(want))
			return
		}
		for i := range want {
			if ri.Chunks[i] != want[i] {
				c.Violate("index-mismatch", "desync make/differs", "n=%d sizes=%s len=%d: chunk %d is [%d+%d], the rule gives [%d+%d]", n, m, len(blob), i, ri.Chunks[i].Start, ri.Chunks[i].Size, want[i].Start, want[i].Size)
				return
			}
		}
	}
	c.Outcome("ok")
}

// locationMatchRef is the documented rule for which config entry applies to a store location: URLs are compared as
// strings after dropping one trailing slash on both sides, paths after making both absolute; the entry is a glob in
// the sense of filepath.Match (a star does not cross a slash).
func locationMatchRef(pattern, loc string) bool {
	if i := strings.Index(loc, "://"); i > 1 {
		m, _ := filepath.Match(strings.TrimSuffix(pattern, "/"), strings.TrimSuffix(loc, "/"))
		return m
	}
	p1, err1 := filepath.Abs(pattern)
	p2, err2 := filepath.Abs(loc)
	if err1 != nil || err2 != nil {
		return false
	}
	m, _ := filepath.Match(p1, p2)
	return m
}
