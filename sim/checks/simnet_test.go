package checks

import (
	"bytes"
	"context"
	"errors"
	"io"
	"net/http"
	"net/http/httptest"
	"sync"
	"time"

	"github.com/folbricht/desync"
)

// ---- simulated HTTP transport: the real client talks to the real handler in process ----

type respScript struct {
	kind string // ok | 404 | 400 | 403 | 500 | 503 | reset | short | delay
}

var errConnReset = errors.New("read: connection reset by peer (injected)")

// simTransport is an http.RoundTripper that delivers requests to a handler
// in process, following a script of injected responses first.
type simTransport struct {
	// mu guards the bookkeeping below: outside a bubble the clients are real goroutines (AssembleFile's workers in
	// C03). It is never held across a call into the handler.
	mu       sync.Mutex
	h        http.Handler
	script   []respScript // consumed one per request
	requests []string     // METHOD path of every request seen
	delay    time.Duration
	// dupPUT delivers every PUT twice to the handler (duplicate delivery)
	dupPUT bool
	// status and body length of the last response the real handler produced
	lastStatus, lastBodyLen int
}

type shortBody struct {
	r    io.Reader
	done bool
}

func (s *shortBody) Read(p []byte) (int, error) {
	n, err := s.r.Read(p)
	if err == io.EOF {
		return n, io.ErrUnexpectedEOF
	}
	return n, err
}
func (s *shortBody) Close() error { return nil }

func (t *simTransport) RoundTrip(req *http.Request) (*http.Response, error) {
	var body []byte
	if req.Body != nil {
		body, _ = io.ReadAll(req.Body)
		req.Body.Close()
	}
	var sc respScript
	t.mu.Lock()
	t.requests = append(t.requests, req.Method+" "+req.URL.Path)
	if len(t.script) > 0 {
		sc, t.script = t.script[0], t.script[1:]
	} else {
		sc = respScript{"ok"}
	}
	t.mu.Unlock()
	mk := func(code int, b []byte) *http.Response {
		return &http.Response{StatusCode: code, Status: http.StatusText(code), Body: io.NopCloser(bytes.NewReader(b)), Header: http.Header{}, Request: req, ContentLength: int64(len(b)), Proto: "HTTP/1.1", ProtoMajor: 1, ProtoMinor: 1}
	}
	serve := func() *http.Response {
		r2 := req.Clone(context.Background())
		r2.Body = io.NopCloser(bytes.NewReader(body))
		r2.RequestURI = req.URL.RequestURI()
		rec := httptest.NewRecorder()
		t.h.ServeHTTP(rec, r2)
		if t.dupPUT && req.Method == "PUT" {
			r3 := req.Clone(context.Background())
			r3.Body = io.NopCloser(bytes.NewReader(body))
			t.h.ServeHTTP(httptest.NewRecorder(), r3)
		}
		res := rec.Result()
		res.Request = req
		t.mu.Lock()
		t.lastStatus, t.lastBodyLen = rec.Code, rec.Body.Len()
		t.mu.Unlock()
		return res
	}
	switch sc.kind {
	case "reset":
		return nil, errConnReset
	case "404":
		return mk(404, []byte("not found (injected)")), nil
	case "400":
		return mk(400, []byte("bad request (injected)")), nil
	case "403":
		return mk(403, []byte("forbidden (injected)")), nil
	case "500":
		return mk(500, []byte("internal error (injected)")), nil
	case "503":
		return mk(503, []byte("unavailable (injected)")), nil
	case "short":
		res := serve()
		b, _ := io.ReadAll(res.Body)
		if len(b) > 0 {
			b = b[:len(b)/2]
		}
		res.Body = &shortBody{r: bytes.NewReader(b)}
		return res, nil
	case "delay":
		// the response arrives after the client's time-out
		select {
		case <-time.After(t.delay):
		case <-req.Context().Done():
			return nil, req.Context().Err()
		}
		return serve(), nil
	}
	return serve(), nil
}

// ---- casync protocol over an in-process duplex pipe ----

type protoSession struct {
	client   *desync.Protocol
	done     chan error
	closeAll func()
}

func startProtocol(upstream desync.Store) (*protoSession, error) {
	cr, sw := io.Pipe() // server -> client
	sr, cw := io.Pipe() // client -> server
	srv := desync.NewProtocolServer(sr, sw, upstream)
	s := &protoSession{done: make(chan error, 1)}
	s.closeAll = func() { cr.Close(); sw.Close(); sr.Close(); cw.Close() }
	go func() {
		err := srv.Serve(context.Background())
		sw.Close() // the peer exits: the client sees EOF
		sr.Close()
		s.done <- err
	}()
	p := desync.NewProtocol(cr, cw)
	flags, err := p.Initialize(desync.CaProtocolPullChunks)
	if err != nil {
		s.closeAll()
		return nil, err
	}
	if flags&desync.CaProtocolReadableStore == 0 {
		s.closeAll()
		return nil, errors.New("server not offering chunks")
	}
	s.client = p
	return s, nil
}

// protoStore adapts a protocol session to the Store interface like RemoteSSH does.
type protoStore struct{ s *protoSession }

// one request at a time per session, as RemoteSSH's session pool guarantees
var protoMu sync.Mutex

func (p protoStore) GetChunk(id desync.ChunkID) (*desync.Chunk, error) {
	protoMu.Lock()
	defer protoMu.Unlock()
	return p.s.client.RequestChunk(id)
}
func (p protoStore) HasChunk(id desync.ChunkID) (bool, error) {
	if _, err := p.GetChunk(id); err != nil {
		return false, err
	}
	return true, nil
}
func (p protoStore) Close() error   { p.s.closeAll(); return nil }
func (p protoStore) String() string { return "casync-protocol" }
