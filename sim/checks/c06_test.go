package checks

import (
	"bytes"
	"context"
	"fmt"
	"os"
	"path/filepath"
	"testing"

	"verif/fw"
	"verif/simrt"

	"github.com/folbricht/desync"
)

// ---- C06: bulk writes are complete when they report success ----

// genDupBlob builds a blob out of whole chunks of a random base blob, picked
// with repetition, so that many index positions share a chunk ID and workers
// race on the same ID. (A chunk that ended at a hash boundary or at max
// re-chunks identically wherever it is placed: the rule only looks at the
// bytes since the previous cut.)
func genDupBlob(c *fw.Case, sz sizes) []byte {
	base := genBlob(c, sz, 24*int(sz.max))
	chunks := refIndex(base, sz)
	if len(chunks) < 2 {
		return base
	}
	r := c.Rand("dup.seed")
	n := c.Range(2, 48, "dup.n")
	distinct := c.Range(1, 6, "dup.distinct")
	var out []byte
	for i := 0; i < n; i++ {
		ch := chunks[r.IntN(min(distinct, len(chunks)-1))] // never the EOF remainder
		out = append(out, base[ch.Start:ch.Start+ch.Size]...)
	}
	return out
}

func runC06(c *fw.Case) {
	if desyncBin() != "" && c.ChanceAdded(1, procRate(100), "c06.proc") {
		runC06Proc(c)
		return
	}
	sz := asmSizes[c.Draw(6, "c06.sizes")]
	var blob []byte
	if c.Chance(2, 3, "c06.dups") {
		blob = genDupBlob(c, sz)
	} else {
		blob = genBlob(c, sz, 40*int(sz.max))
	}
	idx := mkIndex(blob, sz)
	n := c.Range(1, 8, "c06.n")
	op := c.Draw(4, "c06.op")
	names := []string{"ChopFile", "Copy", "ChunkStream", "make"}
	uniq := map[desync.ChunkID]bool{}
	for _, ch := range idx.Chunks {
		uniq[ch.ID] = true
	}
	file := filepath.Join(c.Dir(), "blob")
	if err := os.WriteFile(file, blob, 0644); err != nil {
		c.HarnessError("%v", err)
		return
	}
	// fault: the file was modified after the index was made (same length): chop must then fail, or whatever it stored
	// is valid anyway (chunks the target already had are not read)
	stale := 0
	if op == 0 && len(blob) > 0 && c.Chance(1, 6, "c06.stale") {
		mod := append([]byte(nil), blob...)
		for i := 0; i < c.Range(1, 3, "stale.edits"); i++ {
			p := c.Draw(len(mod), "stale.pos")
			mod[p] ^= byte(1 + c.Draw(255, "stale.xor"))
		}
		if err := os.WriteFile(file, mod, 0644); err != nil {
			c.HarnessError("%v", err)
			return
		}
		stale = 1
		c.Fault("file-changed-since-index")
	}
	dst := newSimStore(c, "dst")
	src := newSimStore(c, "src")
	src.fill(blob, idx.Chunks)
	// some chunks may already be present in the target
	if c.Chance(1, 3, "c06.prefill") {
		r := c.Rand("prefill.seed")
		for _, ch := range idx.Chunks {
			if r.IntN(3) == 0 {
				dst.m[ch.ID] = append([]byte(nil), blob[ch.Start:ch.Start+ch.Size]...)
			}
		}
	}
	budget := 0
	if !c.Chance(1, 3, "c06.faultfree") {
		budget = c.Range(1, 3, "c06.budget")
	}
	for i := 0; i < budget; i++ {
		kind := "error"
		if c.Chance(1, 4, "fault.delay") {
			kind = "delay"
		}
		nth := 1 + c.Draw(len(idx.Chunks)+2, "fault.nth")
		switch c.Draw(3, "fault.op") {
		case 0:
			dst.faults = append(dst.faults, storeFault{op: "has", nth: nth, kind: kind})
		case 1:
			dst.faults = append(dst.faults, storeFault{op: "store", nth: nth, kind: kind})
		case 2:
			if op == 1 {
				src.faults = append(src.faults, storeFault{op: "get", nth: nth, kind: kind})
			} else {
				dst.faults = append(dst.faults, storeFault{op: "store", nth: nth, kind: kind})
			}
		}
	}
	c.Class(fmt.Sprintf("%s n=%d faults=%d dup=%v", names[op], n, budget, len(uniq) < len(idx.Chunks)))
	c.Note("%s sizes=%v blob(%s) chunks=%d distinct=%d n=%d faults dst=%v src=%v", names[op], sz, describeBlob(blob), len(idx.Chunks), len(uniq), n, dst.faults, src.faults)
	var err error
	var got desync.Index
	haveIndex := false
	// fault: the caller's context is cancelled at a drawn scheduling step; success still means "complete"
	cancelAt := 0
	if c.ChanceAdded(1, 10, "c06.cancel") {
		cancelAt = 1 + c.Draw(400, "c06.cancel.at")
	}
	cancelled := false
	sr := c.Sim(func(rt *simrt.RT) {
		rt.MaxSteps = 400000
		dst.rt, src.rt = rt, rt
		ctx, cancel := context.WithCancel(context.Background())
		_ = cancel // released with the case; the setup function returns before the tasks run
		if cancelAt > 0 {
			rt.AtStep(cancelAt, func() { cancelled = true; c.Fault("context-cancelled"); cancel() })
		}
		rt.Go("main", func() {
			switch op {
			case 0:
				err = desync.ChopFile(ctx, file, idx.Chunks, dst, n, desync.NullProgressBar{})
			case 1:
				var ids []desync.ChunkID
				for _, ch := range idx.Chunks {
					ids = append(ids, ch.ID) // with duplicates, as `cache` builds the list per index
				}
				if c.Bool("copy.dedup") {
					seen := map[desync.ChunkID]bool{}
					ids = ids[:0]
					for _, ch := range idx.Chunks {
						if !seen[ch.ID] {
							seen[ch.ID] = true
							ids = append(ids, ch.ID)
						}
					}
				}
				err = desync.Copy(ctx, ids, src, dst, n, desync.NullProgressBar{})
			case 2:
				ck, e := desync.NewChunker(bytes.NewReader(blob), sz.min, sz.avg, sz.max)
				if e != nil {
					err = e
					return
				}
				got, err = desync.ChunkStream(ctx, ck, dst, n)
				haveIndex = true
			case 3:
				got, _, err = desync.IndexFromFile(ctx, file, n, sz.min, sz.avg, sz.max, desync.NullProgressBar{})
				haveIndex = true
				if err == nil {
					err = desync.ChopFile(ctx, file, got.Chunks, dst, n, desync.NullProgressBar{})
				}
			}
		})
	})
	dst.rt, src.rt = nil, nil
	if c.StdSimViolations(sr, names[op], false) {
		return
	}
	delivered := dst.delivered + src.delivered
	if err == nil && cancelled && delivered == 0 && stale == 0 {
		if haveIndex {
			if cls, d := compareTables(got.Chunks, idx.Chunks); cls != "" {
				c.Violate("index-mismatch", names[op]+"/"+cls, "cancelled, reported success, but the produced index does not describe the input: %s", d)
				return
			}
		}
		if why := storeHasAll(dst, blob, idx.Chunks); why != "" {
			c.Violate("store-incomplete", names[op]+"/cancelled", "the context was cancelled, %s reported success, but %s", names[op], why)
			return
		}
		c.Outcome("ok")
		return
	}
	if cancelled {
		delivered++
	}
	if err == nil && stale > 0 && delivered == 0 {
		if why := storeHasAll(dst, blob, idx.Chunks); why != "" {
			c.Violate("store-incomplete", names[op]+"/stale-index", "the file no longer matches the index, ChopFile reported success, but %s", why)
			return
		}
		c.Outcome("ok")
		return
	}
	delivered += stale
	if err == nil {
		if delivered > 0 {
			c.Violate("failure-masked", names[op], "%d injected store failure(s) were returned to desync, yet %s reported success (faults dst=%v src=%v)", delivered, names[op], dst.faults, src.faults)
			return
		}
		if haveIndex {
			if cls, d := compareTables(got.Chunks, idx.Chunks); cls != "" {
				c.Violate("index-mismatch", names[op]+"/"+cls, "success, but the produced index does not describe the input: %s", d)
				return
			}
		}
		if why := storeHasAll(dst, blob, idx.Chunks); why != "" {
			c.Violate("store-incomplete", names[op], "success, but %s", why)
			return
		}
		c.Outcome("ok")
		return
	}
	if delivered == 0 {
		c.Violate("unexpected-error", names[op], "no failure was injected, yet %s failed: %v", names[op], err)
		return
	}
	c.Outcome("error-reported")
}

func TestC06(t *testing.T) {
	fw.Main(t, &fw.Check{ID: "C06", Level: "exploration", Run: runC06})
}

// ---- C06 (process level): the real make / chop / cache / tar -i commands against a store that fails one request ----

func runC06Proc(c *fw.Case) {
	if c.Chance(1, 5, "proc.sysfault") {
		runSysFaultProc(c, "C06")
		return
	}
	c.Probe("process-level-case (real desync binary)")
	cmdKind := c.Draw(4, "proc.cmd")
	names := []string{"chop", "cache", "make", "tar -i"}
	n := []string{"1", "2", "4"}[c.Draw(3, "proc.n")]
	dir := c.Dir()
	sz := sizes{256, 1024, 4096}
	if cmdKind >= 2 {
		sz = sizes{1024, 4096, 16384} // the CLI takes chunk sizes in KiB
	}
	var blob []byte
	srcTree := filepath.Join(dir, "src")
	if cmdKind == 3 {
		if _, err := genTree(c, srcTree, 25); err != nil {
			c.HarnessError("%v", err)
			return
		}
		var err error
		if blob, err = tarTree(srcTree); err != nil {
			c.HarnessError("%v", err)
			return
		}
	} else if c.Bool("proc.dups") {
		blob = genDupBlob(c, sz)
	} else {
		blob = genBlob(c, sz, 20*int(sz.max))
	}
	idx := mkIndex(blob, sz)
	if len(idx.Chunks) == 0 {
		c.Outcome("empty")
		return
	}
	indexFile := filepath.Join(dir, "blob.caibx")
	blobFile := filepath.Join(dir, "blob")
	cacheDir := filepath.Join(dir, "cache")
	os.WriteFile(blobFile, blob, 0644)
	failKind := []string{"HEAD", "PUT"}[c.Draw(2, "proc.failkind")]
	if cmdKind == 1 {
		failKind = "GET"
	}
	// `make --print-stats` prints the chunking statistics instead of writing the index file; its exit status still
	// has to cover the chunks it was asked to store
	printStats := cmdKind == 2 && c.Bool("proc.printstats")
	// chop and cache can be told to leave out the chunks another index names; everything else still has to arrive
	ignored := map[desync.ChunkID]bool{}
	ignoreFile := filepath.Join(dir, "ignore.caibx")
	if cmdKind <= 1 && c.ChanceAdded(1, 3, "proc.ignore") {
		ig := desync.Index{Index: idx.Index}
		var pos uint64
		for _, ch := range idx.Chunks {
			if c.Chance(1, 3, "proc.ignore.pick") && !ignored[ch.ID] {
				ignored[ch.ID] = true
				ig.Chunks = append(ig.Chunks, desync.IndexChunk{ID: ch.ID, Start: pos, Size: ch.Size})
				pos += ch.Size
			}
		}
		writeIndexFile(ignoreFile, ig)
	}
	c.Class(fmt.Sprintf("proc %s n=%s fail=%s stats=%v ignore=%d", names[cmdKind], n, failKind, printStats, len(ignored)))
	c.Note("real `desync %s` n=%s chunks=%d, one %s request answered 500 (error-retry 0)", names[cmdKind], n, len(idx.Chunks), failKind)
	args := func(g *gateServer) []string {
		switch cmdKind {
		case 0:
			if len(ignored) > 0 {
				return []string{"chop", "-n", n, "-e", "0", "--ignore", ignoreFile, "-s", g.url(), indexFile, blobFile}
			}
			return []string{"chop", "-n", n, "-e", "0", "-s", g.url(), indexFile, blobFile}
		case 1:
			if len(ignored) > 0 {
				return []string{"cache", "-n", n, "-e", "0", "--ignore", ignoreFile, "-s", g.url(), "-c", cacheDir, indexFile}
			}
			return []string{"cache", "-n", n, "-e", "0", "-s", g.url(), "-c", cacheDir, indexFile}
		case 2:
			if printStats {
				return []string{"make", "--print-stats", "-n", n, "-e", "0", "-m", "1:4:16", "-s", g.url(), indexFile, blobFile}
			}
			return []string{"make", "-n", n, "-e", "0", "-m", "1:4:16", "-s", g.url(), indexFile, blobFile}
		}
		return []string{"tar", "-i", "-n", n, "-e", "0", "-m", "1:4:16", "-s", g.url(), indexFile, srcTree}
	}
	reset := func() {
		os.RemoveAll(cacheDir)
		os.MkdirAll(cacheDir, 0755)
		if cmdKind >= 2 {
			os.Remove(indexFile)
		} else {
			f, _ := os.Create(indexFile)
			idx.WriteTo(f)
			f.Close()
		}
	}
	serve := func() *gateServer {
		g, err := newGateServer(cmdKind != 1)
		if err != nil {
			c.HarnessError("%v", err)
			return nil
		}
		if cmdKind == 1 {
			for _, ch := range idx.Chunks {
				g.addChunk(blob[ch.Start : ch.Start+ch.Size])
			}
		}
		return g
	}
	complete := func(g *gateServer) string {
		if cmdKind == 1 {
			ls, _ := desync.NewLocalStore(cacheDir, desync.StoreOptions{})
			for _, ch := range idx.Chunks {
				if ignored[ch.ID] {
					continue
				}
				if _, err := ls.GetChunk(ch.ID); err != nil {
					return "chunk " + ch.ID.String()[:8] + " cannot be read back from the cache: " + err.Error()
				}
			}
			return ""
		}
		for _, ch := range idx.Chunks {
			if ignored[ch.ID] {
				continue
			}
			s := ch.ID.String()
			z, ok := g.stored["/"+s[:4]+"/"+s+".cacnk"]
			if !ok {
				return "chunk " + s[:8] + " was not stored"
			}
			if b, err := desync.Decompress(nil, z); err != nil || desync.Digest.Sum(b) != ch.ID {
				return "stored chunk " + s[:8] + " is not valid"
			}
		}
		if cmdKind >= 2 && !printStats {
			f, err := os.Open(indexFile)
			if err != nil {
				return "no index file was written"
			}
			defer f.Close()
			got, err := desync.IndexFromReader(f)
			if err != nil {
				return "index file unreadable: " + err.Error()
			}
			if cls, d := compareTables(got.Chunks, idx.Chunks); cls != "" {
				return "index does not describe the input: " + d
			}
		}
		return ""
	}
	// fault-free run: success and completeness; counts the requests of the kind that will fail
	reset()
	g := serve()
	if g == nil {
		return
	}
	res, err := runPlain(args(g)...)
	total := len(g.requests(failKind))
	why := complete(g)
	g.close()
	if err != nil {
		c.HarnessError("%v", err)
		return
	}
	if res.exit != 0 || why != "" {
		c.Violate("command-failed", "desync "+names[cmdKind], "fault-free run: exit %d, %s: %s", res.exit, why, res.output)
		return
	}
	ks := map[int]bool{1: true, total: true}
	for i := 0; i < 5 && total > 0; i++ {
		ks[1+c.Draw(total, "proc.k")] = true
	}
	for k := 1; k <= total; k++ {
		if !ks[k] {
			continue
		}
		reset()
		g := serve()
		if g == nil {
			return
		}
		g.failKind, g.failAt = failKind, k
		res, err := runPlain(args(g)...)
		why := complete(g)
		failed := g.failed
		g.close()
		if err != nil {
			c.HarnessError("%v", err)
			return
		}
		c.SubEval(1)
		if failed > 0 {
			c.Fault("http-500-" + failKind)
		}
		if res.exit == 0 && failed > 0 {
			c.Violate("failure-masked", "desync "+names[cmdKind], "%s request %d of %d was answered 500 (error-retry 0), yet the command exited 0 (store complete: %v)", failKind, k, total, why == "")
			return
		}
		if res.exit == 0 && why != "" {
			c.Violate("store-incomplete", "desync "+names[cmdKind], "the command exited 0 but %s", why)
			return
		}
	}
	c.Outcome("ok")
}
