package checks

import (
	"context"
	"bytes"
	"encoding/binary"
	"fmt"
	"io"
	"net/http/httptest"
	"os"
	"path/filepath"
	"runtime"
	"testing"

	"verif/fw"

	"github.com/folbricht/desync"
)

// ---- C19: decoders survive arbitrary input (explored as stream faults on valid streams) ----

const (
	c19AllocFactor = 8
	c19AllocConst  = 128 << 10
)

var c19Catars = []string{"testdata/flat.catar", "testdata/nested.catar", "testdata/complex.catar", "testdata/flatdir.catar", "cmd/desync/testdata/tree.catar"}

// elementOffsets walks a valid catar/caibx stream and returns the offsets of all element headers.
func elementOffsets(b []byte) []int {
	var offs []int
	o := 0
	for o+16 <= len(b) {
		size := binary.LittleEndian.Uint64(b[o:])
		typ := binary.LittleEndian.Uint64(b[o+8:])
		offs = append(offs, o)
		if typ == desync.CaFormatTable { // size is MAX_UINT64: items follow until a zero offset, then the tail
			o += 16
			for o+8 <= len(b) && binary.LittleEndian.Uint64(b[o:]) != 0 {
				o += 40
			}
			o += 40
			continue
		}
		if size < 16 || size > uint64(len(b)-o) {
			break
		}
		o += int(size)
	}
	return offs
}

type c19Target struct {
	name   string
	decode func(r io.Reader) error // runs the decoder to the end of the stream
	// allocExtra is added to the allocation bound: the session targets do bounded work per message
	// (the server reads and compresses one chunk per REQUEST) that is not driven by any size field
	allocExtra int
}

func drainIndex(r io.Reader) error {
	_, err := desync.IndexFromReader(r)
	return err
}

func drainFormat(r io.Reader) error {
	d := desync.NewFormatDecoder(r)
	for i := 0; i < 100000; i++ {
		e, err := d.Next()
		if err != nil {
			return err
		}
		if e == nil {
			return nil
		}
	}
	return nil
}

func drainArchive(r io.Reader) error {
	d := desync.NewArchiveDecoder(r)
	for i := 0; i < 100000; i++ {
		e, err := d.Next()
		if err != nil {
			return err
		}
		if e == nil {
			return nil
		}
	}
	return nil
}

func drainProtocol(r io.Reader) error {
	p := desync.NewProtocol(r, io.Discard)
	for i := 0; i < 1000; i++ {
		if _, err := p.ReadMessage(); err != nil {
			if err == io.EOF {
				return nil
			}
			return err
		}
	}
	return nil
}

// c19MemStore serves the chunks of a protocol session.
type c19MemStore map[desync.ChunkID][]byte

func (m c19MemStore) GetChunk(id desync.ChunkID) (*desync.Chunk, error) {
	b, ok := m[id]
	if !ok {
		return nil, desync.ChunkMissing{ID: id}
	}
	return desync.NewChunk(b), nil
}
func (m c19MemStore) HasChunk(id desync.ChunkID) (bool, error) { _, ok := m[id]; return ok, nil }
func (m c19MemStore) Close() error                             { return nil }
func (m c19MemStore) String() string                           { return "c19mem" }

// c19ProtoSession: the bytes one side of a casync protocol session receives, interpreted by the code that
// acts on the messages rather than by ReadMessage alone - the server's request loop (HELLO, REQUESTs,
// GOODBYE from a client) or the client's Initialize + RequestChunk sequence (HELLO, CHUNK/MISSING replies
// from a server). The valid stream must be served without error; every damaged one without a panic or an
// allocation out of proportion. Bit flips that turn on the content-size width bits of a zstd frame header
// inside a CHUNK reply are left out: what the decompressor allocates for a damaged chunk payload is not
// message parsing (C03 and C14 leave the same two bits out for the same reason).
func c19ProtoSession(c *fw.Case) ([]byte, c19Target, func(int, uint) bool) {
	r := c.Rand("session.seed")
	store := c19MemStore{}
	var ids []desync.ChunkID
	for i, n := 0, c.Range(1, 5, "session.chunks"); i < n; i++ {
		b := make([]byte, 1+r.IntN(600))
		for j := range b {
			b[j] = byte(r.IntN(256))
		}
		if r.IntN(3) == 0 {
			b = bytes.Repeat(b[:1], len(b)) // compresses well: the reply is much shorter than the chunk
		}
		ch := desync.NewChunk(b)
		store[ch.ID()] = b
		ids = append(ids, ch.ID())
	}
	var buf bytes.Buffer
	p := desync.NewProtocol(bytes.NewReader(nil), &buf)
	hello := func(flags uint64) {
		f := make([]byte, 8)
		binary.LittleEndian.PutUint64(f, flags)
		p.WriteMessage(desync.Message{Type: desync.CaProtocolHello, Body: f})
	}
	const perMessage = 64 << 10
	if c.Bool("session.server") {
		hello(desync.CaProtocolPullChunks)
		n := c.Range(1, 6, "session.requests")
		for i := 0; i < n; i++ {
			body := make([]byte, 40)
			binary.LittleEndian.PutUint64(body, uint64(r.IntN(2)))
			copy(body[8:], ids[r.IntN(len(ids))][:])
			p.WriteMessage(desync.Message{Type: desync.CaProtocolRequest, Body: body})
		}
		p.WriteMessage(desync.Message{Type: desync.CaProtocolGoodbye, Body: nil})
		return buf.Bytes(), c19Target{"ProtocolServer.Serve", func(rd io.Reader) error {
			return desync.NewProtocolServer(rd, io.Discard, store).Serve(context.Background())
		}, (n + 2) * perMessage}, nil
	}
	// client side
	hello(desync.CaProtocolReadableStore)
	var asked []desync.ChunkID
	type span struct{ from, to int }
	var frames []span
	for i, n := 0, c.Range(1, 6, "session.requests"); i < n; i++ {
		id := ids[r.IntN(len(ids))]
		asked = append(asked, id)
		if r.IntN(4) == 0 {
			p.WriteMessage(desync.Message{Type: desync.CaProtocolMissing, Body: id[:]})
			continue
		}
		comp, err := desync.Compress(store[id])
		if err != nil {
			c.HarnessError("%v", err)
			return nil, c19Target{}, nil
		}
		body := make([]byte, 40, 40+len(comp))
		binary.LittleEndian.PutUint64(body, desync.CaProtocolChunkCompressed)
		copy(body[8:], id[:])
		body = append(body, comp...)
		start := buf.Len() + 16 + 40
		frames = append(frames, span{start, start + len(comp)})
		p.WriteMessage(desync.Message{Type: desync.CaProtocolChunk, Body: body})
	}
	skip := func(pos int, bit uint) bool {
		for _, f := range frames {
			if pos == f.from+4 && bit >= 6 {
				return true
			}
		}
		return false
	}
	return buf.Bytes(), c19Target{"Protocol.RequestChunk", func(rd io.Reader) error {
		cl := desync.NewProtocol(rd, io.Discard)
		if _, err := cl.Initialize(desync.CaProtocolPullChunks); err != nil {
			return err
		}
		for _, id := range asked {
			ch, err := cl.RequestChunk(id)
			if _, missing := err.(desync.ChunkMissing); missing {
				continue
			}
			if err != nil {
				return err
			}
			if _, err := ch.Data(); err != nil {
				return err
			}
		}
		return nil
	}, (len(asked) + 1) * perMessage}, skip
}

func runC19(c *fw.Case) {
	if desyncBin() != "" && c.ChanceAdded(1, procRate(12), "c19.proc") {
		runC19Proc(c)
		return
	}
	kind := c.Draw(5, "c19.kind") // 0 index->IndexFromReader, 1 index via HTTP PUT, 2 catar->FormatDecoder, 3 catar->ArchiveDecoder, 4 protocol
	var valid []byte
	var tgt c19Target
	var skipFlip func(pos int, bit uint) bool // bit flips the case leaves out (see c19ProtoSession)
	switch kind {
	case 0, 1:
		sz := genSizes(c)
		n := c.Draw(60, "chunks")
		r := c.Rand("index.seed")
		idx := desync.Index{Index: desync.FormatIndex{FeatureFlags: desync.CaFormatExcludeNoDump | desync.CaFormatSHA512256, ChunkSizeMin: sz.min, ChunkSizeAvg: sz.avg, ChunkSizeMax: sz.max}}
		var pos uint64
		for i := 0; i < n; i++ {
			var id desync.ChunkID
			for j := range id {
				id[j] = byte(r.IntN(256))
			}
			s := uint64(1 + r.IntN(int(sz.max)))
			idx.Chunks = append(idx.Chunks, desync.IndexChunk{ID: id, Start: pos, Size: s})
			pos += s
		}
		var buf bytes.Buffer
		idx.WriteTo(&buf)
		valid = buf.Bytes()
		if kind == 0 {
			tgt = c19Target{"IndexFromReader", drainIndex, 0}
		} else {
			dir := filepath.Join(c.Dir(), "idx")
			os.MkdirAll(dir, 0755)
			ls, _ := desync.NewLocalIndexStore(dir)
			h := desync.NewHTTPIndexHandler(ls, true, "")
			tgt = c19Target{"HTTPIndexHandler.put", func(r io.Reader) error {
				rec := httptest.NewRecorder()
				req := httptest.NewRequest("PUT", "/x.caibx", r)
				h.ServeHTTP(rec, req)
				if rec.Code != 200 {
					return fmt.Errorf("status %d", rec.Code)
				}
				return nil
			}, 0}
		}
	case 2, 3:
		var b []byte
		var err error
		if c.Bool("catar.generated") {
			// an archive of a generated tree (xattrs, devices, symlinks, odd names)
			src := filepath.Join(c.Dir(), "src")
			if _, err = genTree(c, src, 12); err == nil {
				b, err = tarTree(src)
			}
		} else {
			b, err = os.ReadFile(filepath.Join(repoDir(), c19Catars[c.Draw(len(c19Catars), "catar")]))
		}
		if err != nil {
			c.HarnessError("%v", err)
			return
		}
		valid = b
		if kind == 2 {
			tgt = c19Target{"FormatDecoder.Next", drainFormat, 0}
		} else {
			tgt = c19Target{"ArchiveDecoder.Next", drainArchive, 0}
		}
	case 4:
		if c.ChanceAdded(1, 2, "c19.proto.session") {
			valid, tgt, skipFlip = c19ProtoSession(c)
			break
		}
		var buf bytes.Buffer
		p := desync.NewProtocol(bytes.NewReader(nil), &buf)
		r := c.Rand("proto.seed")
		p.WriteMessage(desync.Message{Type: desync.CaProtocolHello, Body: make([]byte, 8)})
		for i, n := 0, c.Range(1, 6, "msgs"); i < n; i++ {
			body := make([]byte, r.IntN(300))
			for j := range body {
				body[j] = byte(r.IntN(256))
			}
			types := []uint64{desync.CaProtocolRequest, desync.CaProtocolChunk, desync.CaProtocolMissing, desync.CaProtocolGoodbye, desync.CaProtocolHello}
			p.WriteMessage(desync.Message{Type: types[r.IntN(len(types))], Body: body})
		}
		valid = buf.Bytes()
		tgt = c19Target{"Protocol.ReadMessage", drainProtocol, 0}
	}
	c.Class(fmt.Sprintf("%s len<=%d", tgt.name, (len(valid)+1023)/1024*1024))
	c.Note("%s valid stream of %d bytes", tgt.name, len(valid))
	r := c.Rand("fault.seed")
	// run decodes input through a (possibly fragmenting / failing) reader and checks panic + allocation
	run := func(input []byte, what string, measure bool, frag int, failAt int) bool {
		fr := &fragReader{data: input, r: r, mode: frag, failAt: failAt}
		var m0, m1 runtime.MemStats
		if measure {
			runtime.ReadMemStats(&m0)
		}
		var err error
		if catch(c, tgt.name, func() { err = tgt.decode(fr) }) {
			// catch() recorded the violation; add what was fed
			return false
		}
		_ = err
		c.SubEval(1)
		if measure {
			runtime.ReadMemStats(&m1)
			alloc := m1.TotalAlloc - m0.TotalAlloc
			if alloc > uint64(c19AllocFactor*len(input)+c19AllocConst+tgt.allocExtra) {
				c.Violate("allocation-out-of-proportion", tgt.name, "%s: decoding %d input bytes allocated %d bytes (bound %d*len+%d)", what, len(input), alloc, c19AllocFactor, c19AllocConst+tgt.allocExtra)
				return false
			}
		}
		if fr.Failed && err == nil && kind != 1 {
			c.Violate("reader-error-swallowed", tgt.name, "%s: the reader failed but the decoder reported success", what)
			return false
		}
		return true
	}
	// the valid stream itself must decode without error
	{
		fr := &fragReader{data: valid, r: r, mode: c.Draw(4, "frag.valid")}
		var err error
		if catch(c, tgt.name, func() { err = tgt.decode(fr) }) {
			return
		}
		if err != nil {
			c.Violate("valid-stream-rejected", tgt.name, "%v", err)
			return
		}
		if !run(valid, "valid stream", true, 0, 0) {
			return
		}
	}
	// (a) truncation at every byte (sampled for long streams)
	step := 1
	if len(valid) > 3000 {
		step = 1 + len(valid)/3000
	}
	for l := 0; l < len(valid); l += step {
		c.Fault("truncation")
		if !run(valid[:l], fmt.Sprintf("truncated to %d of %d bytes", l, len(valid)), l%16 == 0, r.IntN(4), 0) {
			return
		}
	}
	// (b) every size field of every element header (and message length) set to critical values
	var offs []int
	if kind == 4 {
		o := 0
		for o+16 <= len(valid) {
			offs = append(offs, o)
			o += int(binary.LittleEndian.Uint64(valid[o:]))
		}
	} else {
		offs = elementOffsets(valid)
	}
	if len(offs) > 400 {
		offs = offs[:400]
	}
	for _, o := range offs {
		orig := binary.LittleEndian.Uint64(valid[o:])
		vals := []uint64{0, 1, 8, 15, 16, 17, 24, 31, 32, 33, 40, 47, 48, 63, 64, 65, orig - 1, orig + 1, orig + 24, 1 << 20, 1 << 50, 1 << 63, ^uint64(0), ^uint64(0) - 15}
		if r.IntN(40) == 0 {
			vals = append(vals, 1<<28)
		}
		for _, v := range vals {
			if v == orig {
				continue
			}
			b := append([]byte(nil), valid...)
			binary.LittleEndian.PutUint64(b[o:], v)
			c.Fault("size-field")
			if !run(b, fmt.Sprintf("size field at offset %d (element type %x) set to %d (was %d)", o, binary.LittleEndian.Uint64(valid[o+8:]), v, orig), true, 0, 0) {
				return
			}
		}
		// type and size together: every element type at the sizes around its fixed part
		if kind != 4 && r.IntN(3) == 0 {
			allTypes := []uint64{desync.CaFormatEntry, desync.CaFormatUser, desync.CaFormatGroup, desync.CaFormatXAttr, desync.CaFormatACLUser, desync.CaFormatACLGroup, desync.CaFormatACLGroupObj, desync.CaFormatACLDefault, desync.CaFormatACLDefaultUser, desync.CaFormatACLDefaultGroup, desync.CaFormatFCaps, desync.CaFormatSELinux, desync.CaFormatSymlink, desync.CaFormatDevice, desync.CaFormatPayload, desync.CaFormatFilename, desync.CaFormatGoodbye, desync.CaFormatIndex, desync.CaFormatTable}
			t := allTypes[r.IntN(len(allTypes))]
			for _, v := range []uint64{16, 17, 24, 25, 31, 32, 33, 39, 40, 41, 47, 48, 49, 56, 63, 64, 65, 72} {
				b := append([]byte(nil), valid...)
				binary.LittleEndian.PutUint64(b[o:], v)
				binary.LittleEndian.PutUint64(b[o+8:], t)
				c.Fault("type-and-size-field")
				if !run(b, fmt.Sprintf("element at offset %d turned into type %x with size %d", o, t, v), true, 0, 0) {
					return
				}
			}
		}
		// the type field: another element type with this size
		types := []uint64{desync.CaFormatEntry, desync.CaFormatUser, desync.CaFormatXAttr, desync.CaFormatFilename, desync.CaFormatSymlink, desync.CaFormatDevice, desync.CaFormatPayload, desync.CaFormatGoodbye, desync.CaFormatIndex, desync.CaFormatTable, desync.CaFormatFCaps, desync.CaFormatACLUser, desync.CaFormatACLDefault, desync.CaFormatSELinux, desync.CaFormatGroup, desync.CaFormatACLGroup, desync.CaFormatACLGroupObj, 0x1234}
		if kind != 4 {
			b := append([]byte(nil), valid...)
			binary.LittleEndian.PutUint64(b[o+8:], types[r.IntN(len(types))])
			c.Fault("type-field")
			if !run(b, fmt.Sprintf("type field at offset %d replaced", o), true, 0, 0) {
				return
			}
		}
	}
	// (c) random byte flips, (d) reader I/O errors
	for i := 0; i < 64 && len(valid) > 0; i++ {
		b := append([]byte(nil), valid...)
		p := r.IntN(len(b))
		bit := uint(r.IntN(8))
		if skipFlip != nil && skipFlip(p, bit) {
			bit = 2
		}
		b[p] ^= byte(1 << bit)
		c.Fault("bit-flip")
		// flips can turn a size into a moderately large value that is really allocated; measured like the rest
		if !run(b, fmt.Sprintf("bit flipped in byte %d", p), true, r.IntN(4), 0) {
			return
		}
	}
	for i := 0; i < 16; i++ {
		c.Fault("reader-error")
		if !run(valid, "reader failing", false, 2, 1+r.IntN(40)) {
			return
		}
	}
	c.Outcome("ok")
}

func TestC19(t *testing.T) {
	fw.Main(t, &fw.Check{ID: "C19", Level: "fault_enumeration", Run: runC19})
}
