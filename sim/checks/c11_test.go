package checks

import (
	"errors"
	"fmt"
	"strings"
	"testing"

	"verif/fw"
	"verif/simrt"

	"github.com/folbricht/desync"
)

// ---- C11: store chains follow their routing, caching and failover policy ----

const (
	cHas = iota
	cMissing
	cInvalid
)

type c11Call struct {
	member  string
	op      string // get | has | store | close
	id      int
	task    string
	seq     int
	outcome string // ok | missing | invalid | error | true | false
	okData  bool   // store: the chunk handed to the member is the valid chunk of id
}

type c11World struct {
	c    *fw.Case
	rt   *simrt.RT
	seq  int
	ids  []desync.ChunkID
	data [][]byte
	log  []*c11Call
}

func (w *c11World) idIndex(id desync.ChunkID) int {
	for i, x := range w.ids {
		if x == id {
			return i
		}
	}
	return -1
}

// c11Member is a leaf store with per-id content and a fault schedule.
type c11Member struct {
	w        *c11World
	name     string
	content  []int // per id
	mode     int   // 0 healthy, 1 always failing, 2 failing during calls [from, from+len)
	from, n  int
	calls    int
	closed   int
	closeSeq int
}

var errMember = errors.New("member store failure")

func (m *c11Member) fails() bool {
	m.calls++
	switch m.mode {
	case 1:
		return true
	case 2:
		return m.calls >= m.from && m.calls < m.from+m.n
	}
	return false
}

func (m *c11Member) rec(op string, id int) *c11Call {
	m.w.rt.Yield("member." + op)
	m.w.seq++
	c := &c11Call{member: m.name, op: op, id: id, task: m.w.rt.TaskID(), seq: m.w.seq}
	m.w.log = append(m.w.log, c)
	return c
}

func (m *c11Member) GetChunk(id desync.ChunkID) (*desync.Chunk, error) {
	i := m.w.idIndex(id)
	c := m.rec("get", i)
	if m.fails() {
		c.outcome = "error"
		m.w.c.Fault("member-error")
		return nil, errMember
	}
	switch m.content[i] {
	case cHas:
		c.outcome = "ok"
		return desync.NewChunkWithID(id, m.w.data[i], false)
	case cInvalid:
		c.outcome = "invalid"
		m.w.c.Fault("member-invalid-chunk")
		return nil, desync.ChunkInvalid{ID: id, Sum: desync.ChunkID{0xbd}}
	}
	c.outcome = "missing"
	return nil, desync.ChunkMissing{ID: id}
}

func (m *c11Member) HasChunk(id desync.ChunkID) (bool, error) {
	i := m.w.idIndex(id)
	c := m.rec("has", i)
	if m.fails() {
		c.outcome = "error"
		m.w.c.Fault("member-error")
		return false, errMember
	}
	if m.content[i] == cMissing {
		c.outcome = "false"
		return false, nil
	}
	c.outcome = "true"
	return true, nil
}

func (m *c11Member) StoreChunk(ch *desync.Chunk) error {
	i := m.w.idIndex(ch.ID())
	c := m.rec("store", i)
	b, _ := ch.Data()
	c.okData = i >= 0 && string(b) == string(m.w.data[i])
	if m.fails() {
		c.outcome = "error"
		m.w.c.Fault("member-error")
		return errMember
	}
	c.outcome = "ok"
	if i >= 0 && c.okData {
		m.content[i] = cHas
	}
	return nil
}

func (m *c11Member) Close() error {
	m.w.seq++
	m.closed++
	m.closeSeq = m.w.seq
	m.w.log = append(m.w.log, &c11Call{member: m.name, op: "close", task: m.w.rt.TaskID(), seq: m.w.seq})
	return nil
}
func (m *c11Member) String() string { return m.name }

// c11Node is the reference model of a chain.
type c11Node struct {
	kind   string // leaf | router | failover | cache
	m      *c11Member
	kids   []*c11Node
	local  *c11Node
	repair bool
}

func (n *c11Node) members(out map[string]*c11Member) {
	if n == nil {
		return
	}
	if n.m != nil {
		out[n.m.name] = n.m
	}
	for _, k := range n.kids {
		k.members(out)
	}
	n.local.members(out)
}

func (n *c11Node) describe() string {
	switch n.kind {
	case "leaf":
		return fmt.Sprintf("%s%v/m%d", n.m.name, n.m.content, n.m.mode)
	case "cache":
		r := ""
		if n.repair {
			r = "+repair"
		}
		return fmt.Sprintf("cache%s(local=%s up=%s)", r, n.local.describe(), n.kids[0].describe())
	}
	var a []string
	for _, k := range n.kids {
		a = append(a, k.describe())
	}
	return n.kind + "(" + strings.Join(a, ",") + ")"
}

func (n *c11Node) build() desync.Store {
	switch n.kind {
	case "leaf":
		return n.m
	case "router":
		var s []desync.Store
		for _, k := range n.kids {
			s = append(s, k.build())
		}
		return desync.NewStoreRouter(s...)
	case "failover":
		var s []desync.Store
		for _, k := range n.kids {
			s = append(s, k.build())
		}
		return desync.NewFailoverGroup(s...)
	case "cache":
		var l desync.WriteStore = n.local.m
		if n.repair {
			l = desync.NewRepairableCache(l)
		}
		return desync.NewCache(n.kids[0].build(), l)
	}
	panic("kind")
}

// c11Exclusive: one client only, so nobody else moves a failover group's active member between two attempts of a
// request: after an error from member i the next attempt must go to member i+1 (cyclically).
var c11Exclusive bool

func (n *c11Node) kidIndex(member string) int {
	for i, k := range n.kids {
		if k.m != nil && k.m.name == member {
			return i
		}
	}
	return -1
}

type c11Cursor struct {
	calls []*c11Call
	pos   int
	bad   string
}

func (cu *c11Cursor) next(member map[string]bool, op string, id int) *c11Call {
	if cu.bad != "" {
		return nil
	}
	if cu.pos >= len(cu.calls) {
		cu.bad = fmt.Sprintf("policy expects a %s call on %v but the operation made no further member call", op, keys(member))
		return nil
	}
	c := cu.calls[cu.pos]
	if !member[c.member] || c.op != op || c.id != id {
		cu.bad = fmt.Sprintf("policy expects %s(id %d) on %v, observed %s(id %d) on %s", op, id, keys(member), c.op, c.id, c.member)
		return nil
	}
	cu.pos++
	return c
}

func keys(m map[string]bool) []string {
	var a []string
	for k := range m {
		a = append(a, k)
	}
	return a
}

func (n *c11Node) leafSet() map[string]bool {
	s := map[string]bool{}
	if n.kind == "leaf" {
		s[n.m.name] = true
	}
	for _, k := range n.kids {
		if k.kind == "leaf" {
			s[k.m.name] = true
		}
	}
	return s
}

// evalGet walks the documented policy over the observed member outcomes.
// It returns ok | missing | error | invalid.
func (n *c11Node) evalGet(cu *c11Cursor, id int, viol *string) string {
	switch n.kind {
	case "leaf":
		c := cu.next(n.leafSet(), "get", id)
		if c == nil {
			return "error"
		}
		return c.outcome
	case "router":
		for _, k := range n.kids {
			switch r := k.evalGet(cu, id, viol); r {
			case "ok":
				return "ok"
			case "missing":
				continue
			default:
				return "error"
			}
		}
		return "missing"
	case "failover":
		last := "error"
		healthy := false
		for _, k := range n.kids {
			if k.m.mode == 0 {
				healthy = true
			}
		}
		prev := -1
		for i := 0; i < len(n.kids); i++ {
			c := cu.next(n.leafSet(), "get", id)
			if c == nil {
				return "error"
			}
			if k := n.kidIndex(c.member); c11Exclusive && prev >= 0 && k >= 0 && k != (prev+1)%len(n.kids) && *viol == "" {
				*viol = fmt.Sprintf("failover group: after an error from member %d the next attempt went to member %d instead of %d", prev, k, (prev+1)%len(n.kids))
			} else {
				prev = k
			}
			if c.outcome == "ok" || c.outcome == "missing" {
				return c.outcome
			}
			last = "error"
		}
		if healthy && *viol == "" {
			*viol = "failover group gave up although one member never fails"
		}
		return last
	case "cache":
		r := n.local.evalGet(cu, id, viol)
		if r == "invalid" && n.repair {
			r = "missing"
		}
		switch r {
		case "ok":
			return "ok"
		case "missing":
		default:
			return "error"
		}
		u := n.kids[0].evalGet(cu, id, viol)
		if u != "ok" {
			if u == "invalid" {
				return "error"
			}
			return u
		}
		s := cu.next(n.local.leafSet(), "store", id)
		if s == nil {
			return "error"
		}
		if !s.okData && *viol == "" {
			*viol = "cache was filled with data that is not the requested chunk"
		}
		if s.outcome != "ok" {
			return "error"
		}
		return "ok"
	}
	return "error"
}

func (n *c11Node) evalHas(cu *c11Cursor, id int, viol *string) string {
	switch n.kind {
	case "leaf":
		c := cu.next(n.leafSet(), "has", id)
		if c == nil {
			return "error"
		}
		return c.outcome
	case "router":
		for _, k := range n.kids {
			switch r := k.evalHas(cu, id, viol); r {
			case "true":
				return "true"
			case "false":
				continue
			default:
				return "error"
			}
		}
		return "false"
	case "failover":
		healthy := false
		for _, k := range n.kids {
			if k.m.mode == 0 {
				healthy = true
			}
		}
		prev := -1
		for i := 0; i < len(n.kids); i++ {
			c := cu.next(n.leafSet(), "has", id)
			if c == nil {
				return "error"
			}
			if k := n.kidIndex(c.member); c11Exclusive && prev >= 0 && k >= 0 && k != (prev+1)%len(n.kids) && *viol == "" {
				*viol = fmt.Sprintf("failover group: after an error from member %d the next attempt went to member %d instead of %d", prev, k, (prev+1)%len(n.kids))
			} else {
				prev = k
			}
			if c.outcome != "error" {
				return c.outcome
			}
		}
		if healthy && *viol == "" {
			*viol = "failover group gave up although one member never fails"
		}
		return "error"
	case "cache":
		r := n.local.evalHas(cu, id, viol)
		if r != "false" {
			return r
		}
		return n.kids[0].evalHas(cu, id, viol)
	}
	return "error"
}

// evalStore: only a single writable member sits under a SwapWriteStore (as the chunk server builds it).
func (n *c11Node) evalStore(cu *c11Cursor, id int, viol *string) string {
	if n.kind != "leaf" {
		return "error"
	}
	c := cu.next(n.leafSet(), "store", id)
	if c == nil {
		return "error"
	}
	if !c.okData && *viol == "" {
		*viol = "the member was handed data that is not the chunk being stored"
	}
	if c.outcome == "ok" {
		return "ok"
	}
	return "error"
}

type c11Op struct {
	task     string
	kind     string
	id       int
	inv, ret int
	res      string
	dataOK   bool
	errStr   string
}

func c11GenMember(c *fw.Case, w *c11World, name string, nids int, allowInvalid bool) *c11Member {
	m := &c11Member{w: w, name: name, content: make([]int, nids)}
	for i := range m.content {
		k := c.Draw(5, "content")
		switch {
		case k <= 1:
			m.content[i] = cHas
		case k == 4 && allowInvalid:
			m.content[i] = cInvalid
		default:
			m.content[i] = cMissing
		}
	}
	switch c.Draw(6, "member.mode") {
	case 0:
		m.mode = 1
	case 1, 2:
		m.mode = 2
		m.from = 1 + c.Draw(8, "fail.from")
		m.n = 1 + c.Draw(3, "fail.len")
	}
	return m
}

func c11GenChain(c *fw.Case, w *c11World, prefix string, nids int) *c11Node {
	nm := 0
	leaf := func(inv bool) *c11Node {
		nm++
		return &c11Node{kind: "leaf", m: c11GenMember(c, w, fmt.Sprintf("%s%d", prefix, nm), nids, inv)}
	}
	router := &c11Node{kind: "router"}
	for i, n := 0, c.Range(1, 3, "router.n"); i < n; i++ {
		if c.Chance(1, 3, "group") {
			g := &c11Node{kind: "failover"}
			for j, k := 0, c.Range(2, 4, "group.n"); j < k; j++ {
				g.kids = append(g.kids, leaf(false))
			}
			router.kids = append(router.kids, g)
		} else {
			router.kids = append(router.kids, leaf(false))
		}
	}
	if c.Chance(2, 3, "cache") {
		l := leaf(true)
		return &c11Node{kind: "cache", kids: []*c11Node{router}, local: l, repair: c.Bool("repair")}
	}
	return router
}

func runC11(c *fw.Case) {
	if desyncBin() != "" && c.ChanceAdded(1, procRate(400), "c11.proc") {
		runC11Proc(c)
		return
	}
	nids := c.Range(2, 4, "ids")
	w := &c11World{c: c}
	for i := 0; i < nids; i++ {
		b := []byte(fmt.Sprintf("chunk-data-%d", i))
		w.data = append(w.data, b)
		w.ids = append(w.ids, desync.Digest.Sum(b))
	}
	chainA := c11GenChain(c, w, "a", nids)
	useSwap := c.Chance(1, 2, "swap")
	// a writable chunk server wraps one writable store into a SwapWriteStore
	writable := useSwap && c.Chance(1, 3, "writable")
	var chainB *c11Node
	if writable {
		chainA = &c11Node{kind: "leaf", m: c11GenMember(c, w, "a1", nids, false)}
		chainB = &c11Node{kind: "leaf", m: c11GenMember(c, w, "b1", nids, false)}
	} else if useSwap {
		chainB = c11GenChain(c, w, "b", nids)
	}
	nclients := c.Range(1, 4, "clients")
	c11Exclusive = nclients == 1
	defer func() { c11Exclusive = false }()
	type planned struct {
		kind string
		id   int
	}
	plans := make([][]planned, nclients)
	for i := range plans {
		for j, n := 0, c.Range(1, 8, "ops"); j < n; j++ {
			k := "get"
			if c.Chance(1, 3, "has") {
				k = "has"
			}
			if writable && c.Chance(1, 2, "store") {
				k = "store"
			}
			plans[i] = append(plans[i], planned{k, c.Draw(nids, "id")})
		}
	}
	swapAfter := c.Draw(12, "swap.after")
	c.Class(fmt.Sprintf("clients=%d swap=%v writable=%v %s", nclients, useSwap, writable, shape(chainA)))
	c.Note("A=%s", chainA.describe())
	if useSwap {
		c.Note("B=%s swap after %d yields", chainB.describe(), swapAfter)
	}
	c.Note("plans=%v", plans)

	var ops []*c11Op
	swapInv, swapRet := 0, 0
	var swapErr error
	sr := c.Sim(func(rt *simrt.RT) {
		w.rt = rt
		rt.MaxSteps = 20000
		var top desync.Store = chainA.build()
		var sw *desync.SwapStore
		var sww *desync.SwapWriteStore
		if writable {
			sww = desync.NewSwapWriteStore(top)
			sw = &sww.SwapStore
			top = sww
		} else if useSwap {
			sw = desync.NewSwapStore(top)
			top = sw
		}
		for i := range plans {
			name := fmt.Sprintf("client%d", i)
			pl := plans[i]
			rt.Go(name, func() {
				for _, p := range pl {
					w.seq++
					op := &c11Op{task: name, kind: p.kind, id: p.id, inv: w.seq}
					ops = append(ops, op)
					if p.kind == "store" {
						ch, _ := desync.NewChunkWithID(w.ids[p.id], w.data[p.id], false)
						if err := sww.StoreChunk(ch); err != nil {
							op.res, op.errStr = "error", err.Error()
						} else {
							op.res = "ok"
						}
					} else if p.kind == "get" {
						ch, err := top.GetChunk(w.ids[p.id])
						switch {
						case err == nil:
							op.res = "ok"
							b, derr := ch.Data()
							op.dataOK = derr == nil && string(b) == string(w.data[p.id]) && ch.ID() == w.ids[p.id]
						default:
							op.errStr = err.Error()
							if _, ok := err.(desync.ChunkMissing); ok {
								op.res = "missing"
							} else {
								op.res = "error"
							}
						}
					} else {
						b, err := top.HasChunk(w.ids[p.id])
						switch {
						case err != nil:
							op.res = "error"
							op.errStr = err.Error()
						case b:
							op.res = "true"
						default:
							op.res = "false"
						}
					}
					w.seq++
					op.ret = w.seq
					rt.Yield("client.next")
				}
			})
		}
		if useSwap {
			rt.Go("reconfig", func() {
				for i := 0; i < swapAfter; i++ {
					rt.Yield("reconfig.wait")
				}
				w.seq++
				swapInv = w.seq
				swapErr = sw.Swap(chainB.build())
				w.seq++
				swapRet = w.seq
				c.Fault("swap-under-load")
			})
		}
	})
	if c.StdSimViolations(sr, "store-chain", true) {
		return
	}
	if swapErr != nil {
		c.Violate("swap-failed", "SwapStore.Swap", "Swap returned %v", swapErr)
		return
	}
	// per-operation trace conformance
	memA, memB := map[string]*c11Member{}, map[string]*c11Member{}
	chainA.members(memA)
	if chainB != nil {
		chainB.members(memB)
	}
	for _, op := range ops {
		if op.ret == 0 {
			c.Violate("request-never-returned", op.kind, "%+v", *op)
			return
		}
		var calls []*c11Call
		for _, cl := range w.log {
			if cl.task == op.task && cl.seq > op.inv && cl.seq < op.ret && cl.op != "close" {
				calls = append(calls, cl)
			}
		}
		check := func(chain *c11Node) string {
			cu := &c11Cursor{calls: calls}
			viol := ""
			var want string
			switch op.kind {
			case "get":
				want = chain.evalGet(cu, op.id, &viol)
				if want == "invalid" {
					want = "error"
				}
			case "has":
				want = chain.evalHas(cu, op.id, &viol)
			default:
				want = chain.evalStore(cu, op.id, &viol)
			}
			if cu.bad != "" {
				return cu.bad
			}
			if cu.pos != len(calls) {
				ex := calls[cu.pos]
				return fmt.Sprintf("policy is finished with result %s but the operation went on to call %s(id %d) on %s", want, ex.op, ex.id, ex.member)
			}
			if viol != "" {
				return viol
			}
			if want != op.res {
				return fmt.Sprintf("policy over the observed member outcomes yields %s, the chain returned %s (%s)", want, op.res, op.errStr)
			}
			if op.kind == "get" && op.res == "ok" && !op.dataOK {
				return "the chain returned a chunk whose data is not the requested chunk"
			}
			return ""
		}
		var why string
		switch {
		case !useSwap || swapInv == 0 || op.ret < swapInv:
			why = check(chainA)
		case op.inv > swapRet:
			why = check(chainB)
			if why != "" {
				why = "request invoked after Swap returned: " + why
			}
		default: // overlaps the swap: must be entirely one of the two
			why = check(chainA)
			if why != "" {
				if w2 := check(chainB); w2 == "" {
					why = ""
				} else {
					why = "request overlapping Swap matches neither store: old: " + why + " / new: " + w2
				}
			}
		}
		if why != "" {
			var cs []string
			for _, cl := range calls {
				cs = append(cs, fmt.Sprintf("%s.%s(%d)=%s", cl.member, cl.op, cl.id, cl.outcome))
			}
			cat := "result"
			switch {
			case strings.Contains(why, "Swap"):
				cat = "swap"
			case strings.Contains(why, "went on to call"):
				cat = "extra-call"
			case strings.Contains(why, "policy expects"):
				cat = "wrong-call"
			case strings.Contains(why, "never fails"):
				cat = "failover-liveness"
			case strings.Contains(why, "not the requested chunk"):
				cat = "data"
			}
			c.Violate("policy-violation", op.kind+"/"+cat, "%s(id %d) by %s on %s: %s; member calls: %v", op.kind, op.id, op.task, shape(chainA), why, cs)
			return
		}
	}
	// swap: the old store is closed exactly once, after its in-flight requests, and never used afterwards
	if useSwap && swapInv != 0 {
		for _, m := range memA {
			if m.closed != 1 {
				c.Violate("swap-close-count", "SwapStore.Swap", "old member %s closed %d times", m.name, m.closed)
				return
			}
			for _, cl := range w.log {
				if cl.member == m.name && cl.op != "close" && cl.seq > m.closeSeq {
					c.Violate("use-after-close", "SwapStore", "member %s used (%s) after it was closed by Swap", m.name, cl.op)
					return
				}
			}
		}
		for _, m := range memB {
			if m.closed != 0 {
				c.Violate("swap-close-count", "SwapStore.Swap", "new member %s was closed", m.name)
				return
			}
		}
	}
	c.Key(len(w.log))
	c.Outcome("ok")
}

func shape(n *c11Node) string {
	switch n.kind {
	case "leaf":
		return "s"
	case "cache":
		r := "cache"
		if n.repair {
			r = "rcache"
		}
		return r + "(" + shape(n.kids[0]) + ")"
	}
	var a []string
	for _, k := range n.kids {
		a = append(a, shape(k))
	}
	return n.kind[:1] + "(" + strings.Join(a, "") + ")"
}

func TestC11(t *testing.T) {
	fw.Main(t, &fw.Check{ID: "C11", Level: "exploration", Run: runC11})
}
