package checks

import (
	"bytes"
	"errors"
	"fmt"
	"io"
	"math/rand/v2"
	"net/url"
	"os"
	"runtime"
	"sort"
	"strings"
	"sync"
	"syscall"
	"testing"

	"verif/fw"
	"verif/ref"
	"verif/simrt"

	"github.com/folbricht/desync"
	"github.com/pkg/sftp"
)

type stdio struct{}

func (stdio) Read(p []byte) (int, error)  { return os.Stdin.Read(p) }
func (stdio) Write(p []byte) (int, error) { return os.Stdout.Write(p) }
func (stdio) Close() error                { return nil }

// sftpStore opens the real SFTPStore against this test binary acting as `ssh host -s sftp`.
func sftpStore(dir string, n int, uncompressed bool) (*desync.SFTPStore, error) {
	exe, err := os.Executable()
	if err != nil {
		return nil, err
	}
	os.Setenv("CASYNC_SSH_PATH", exe)
	os.Setenv("VERIF_SFTP_SHIM", "1")
	defer os.Unsetenv("VERIF_SFTP_SHIM")
	u, _ := url.Parse("sftp://localhost" + dir)
	return desync.NewSFTPStore(u, desync.StoreOptions{N: n, Uncompressed: uncompressed})
}

// sftpIndexStore opens dir as an SFTP index store through the same shim.
func sftpIndexStore(dir string) (*desync.SFTPIndexStore, error) {
	exe, err := os.Executable()
	if err != nil {
		return nil, err
	}
	os.Setenv("CASYNC_SSH_PATH", exe)
	os.Setenv("VERIF_SFTP_SHIM", "1")
	defer os.Unsetenv("VERIF_SFTP_SHIM")
	u, _ := url.Parse("sftp://localhost" + dir)
	return desync.NewSFTPIndexStore(u, desync.StoreOptions{})
}

func repoDir() string {
	if v := os.Getenv("VERIF_REPO"); v != "" {
		return v
	}
	return "/repo"
}

func TestMain(m *testing.M) {
	// used as CASYNC_SSH_PATH shim: serve the sftp subsystem over stdio on the real file system
	if os.Getenv("VERIF_SSH_SHIM") == "1" {
		sshShimMain()
	}
	// used to run the real binary as root without CAP_FSETID (what a hardened container gives it): drop the
	// capability from the bounding set of this thread and exec the binary given in the variable
	if bin := os.Getenv("VERIF_DROPCAP_SHIM"); bin != "" {
		runtime.LockOSThread()
		const prCapbsetDrop, capFsetid = 24, 4
		if _, _, e := syscall.RawSyscall(syscall.SYS_PRCTL, prCapbsetDrop, capFsetid, 0); e != 0 {
			fmt.Fprintln(os.Stderr, "dropcap shim: prctl:", e)
			os.Exit(3)
		}
		var env []string
		for _, kv := range os.Environ() {
			if !strings.HasPrefix(kv, "VERIF_DROPCAP_SHIM=") {
				env = append(env, kv)
			}
		}
		err := syscall.Exec(bin, append([]string{bin}, os.Args[1:]...), env)
		fmt.Fprintln(os.Stderr, "dropcap shim: exec:", err)
		os.Exit(3)
	}
	if os.Getenv("VERIF_SFTP_SHIM") == "1" {
		srv, err := sftp.NewServer(stdio{})
		if err != nil {
			os.Exit(3)
		}
		srv.Serve()
		os.Exit(0)
	}
	if err := ref.SelfCheck(repoDir()); err != nil {
		fmt.Fprintln(os.Stderr, "reference self-check failed:", err)
		os.Exit(2)
	}
	os.Exit(m.Run())
}

type sizes struct{ min, avg, max uint64 }

var sizeTable = []sizes{
	{48, 48, 96}, {48, 48, 48}, {48, 64, 256}, {64, 64, 256}, {64, 256, 1024}, {100, 100, 400},
	{256, 256, 1024}, {256, 1024, 4096}, {512, 2048, 8192}, {48, 4096, 4096}, {1000, 3000, 5000},
}

func genSizes(c *fw.Case) sizes {
	k := c.Draw(len(sizeTable)+2, "sizes")
	if k < len(sizeTable) {
		return sizeTable[k]
	}
	min := uint64(c.Range(48, 300, "min"))
	avg := min + uint64(c.Draw(int(3*min)+1, "avg"))
	max := avg + uint64(c.Draw(int(3*avg)+1, "max"))
	return sizes{min, avg, max}
}

// genBlob builds a blob from tape-chosen segments: random, zero runs with
// lengths near multiples of max, constant runs, low entropy, copies of earlier
// data. limit bounds the total length.
func genBlob(c *fw.Case, sz sizes, limit int) []byte {
	r := c.Rand("blob.seed")
	var b []byte
	nseg := c.Range(1, 7, "blob.segs")
	for i := 0; i < nseg && len(b) < limit; i++ {
		var l int
		switch c.Draw(4, "seg.len.kind") {
		case 0:
			l = c.Draw(int(sz.min)+2, "seg.len")
		case 1:
			l = c.Range(1, 6, "seg.k")*int(sz.max) + c.Range(-2, 2, "seg.d")
		case 2:
			l = c.Draw(4*int(sz.max)+1, "seg.len")
		default:
			l = c.Range(1, 6, "seg.k")*int(sz.min) + c.Range(-2, 2, "seg.d")
		}
		if l < 0 {
			l = 0
		}
		if len(b)+l > limit {
			l = limit - len(b)
		}
		switch c.Draw(5, "seg.kind") {
		case 0: // random
			seg := make([]byte, l)
			for j := range seg {
				seg[j] = byte(r.IntN(256))
			}
			b = append(b, seg...)
		case 1: // zeros
			b = append(b, make([]byte, l)...)
		case 2: // constant non-zero
			b = append(b, bytes.Repeat([]byte{byte(1 + r.IntN(3))}, l)...)
		case 3: // low entropy
			seg := make([]byte, l)
			for j := range seg {
				seg[j] = byte(r.IntN(2))
			}
			b = append(b, seg...)
		case 4: // copy of earlier data
			if len(b) > 0 {
				s := r.IntN(len(b))
				e := s + r.IntN(len(b)-s+1)
				if e-s > l {
					e = s + l
				}
				b = append(b, b[s:e]...)
			}
		}
	}
	return b
}

func describeBlob(b []byte) string {
	z := 0
	for _, x := range b {
		if x == 0 {
			z++
		}
	}
	return fmt.Sprintf("len=%d zeros=%d", len(b), z)
}

func refIndex(blob []byte, sz sizes) []desync.IndexChunk {
	rc := ref.Chunks(blob, sz.min, sz.avg, sz.max, false)
	out := make([]desync.IndexChunk, len(rc))
	for i, c := range rc {
		out[i] = desync.IndexChunk{ID: desync.ChunkID(c.ID), Start: c.Start, Size: c.Size}
	}
	return out
}

func mkIndex(blob []byte, sz sizes) desync.Index {
	return desync.Index{
		Index:  desync.FormatIndex{FeatureFlags: desync.CaFormatExcludeNoDump | desync.CaFormatSHA512256, ChunkSizeMin: sz.min, ChunkSizeAvg: sz.avg, ChunkSizeMax: sz.max},
		Chunks: refIndex(blob, sz),
	}
}

// compareTables classifies the difference between two chunk tables.
func compareTables(got, want []desync.IndexChunk) (string, string) {
	n := len(got)
	if len(want) < n {
		n = len(want)
	}
	for i := 0; i < n; i++ {
		if got[i] != want[i] {
			return "differs", fmt.Sprintf("chunk %d: got start=%d size=%d id=%x.. want start=%d size=%d id=%x.. (got %d chunks, want %d)", i, got[i].Start, got[i].Size, got[i].ID[:4], want[i].Start, want[i].Size, want[i].ID[:4], len(got), len(want))
		}
	}
	switch {
	case len(got) < len(want):
		return "missing-tail", fmt.Sprintf("got %d chunks, want %d: the last %d chunk(s) are missing", len(got), len(want), len(want)-len(got))
	case len(got) > len(want):
		return "extra-tail", fmt.Sprintf("got %d chunks, want %d", len(got), len(want))
	}
	return "", ""
}

// ---- simulated store ----

type storeFault struct {
	op   string // get | has | store
	nth  int    // 1-based call ordinal of that op; 0 = by id
	id   *desync.ChunkID
	kind string // error | missing | delay
}

var errInjected = errors.New("injected store failure")

// simStore is an in-memory WriteStore whose every call is a scheduling point
// and which can fail / delay chosen calls.
type simStore struct {
	mu        sync.Mutex
	rt        *simrt.RT
	c         *fw.Case
	m         map[desync.ChunkID][]byte
	faults    []storeFault
	calls     map[string]int
	Log       []string
	fired     int
	name      string
	latency   bool
	delivered int  // failures returned to the caller
	dead      bool // every GetChunk fails
	tick      *int // optional shared event counter
	failLog   []failRec
}

type failRec struct {
	id   desync.ChunkID
	tick int
}

func newSimStore(c *fw.Case, name string) *simStore {
	return &simStore{c: c, m: map[desync.ChunkID][]byte{}, calls: map[string]int{}, name: name}
}

func (s *simStore) put(b []byte) desync.ChunkID {
	id := desync.Digest.Sum(b)
	s.m[id] = b
	return id
}

func (s *simStore) fill(blob []byte, chunks []desync.IndexChunk) {
	for _, ch := range chunks {
		s.m[ch.ID] = blob[ch.Start : ch.Start+ch.Size]
	}
}

func (s *simStore) enter(op string, id desync.ChunkID) (fail string) {
	if s.rt != nil {
		s.rt.Yield("store." + op)
	}
	s.mu.Lock()
	s.calls[op]++
	n := s.calls[op]
	for _, f := range s.faults {
		if f.op == op && ((f.nth != 0 && f.nth == n) || (f.id != nil && *f.id == id)) {
			fail = f.kind
		}
	}
	if s.dead && op == "get" {
		fail = "error"
	}
	s.mu.Unlock()
	if fail == "delay" {
		s.c.Fault("store-latency")
		if s.rt != nil {
			s.rt.Sleep(20e6, "store.delay")
		}
		fail = ""
	}
	if fail != "" {
		s.c.Fault("store-" + op + "-" + fail)
		s.mu.Lock()
		s.delivered++
		if s.tick != nil {
			*s.tick++
			s.failLog = append(s.failLog, failRec{id, *s.tick})
		}
		s.mu.Unlock()
	}
	return fail
}

func (s *simStore) GetChunk(id desync.ChunkID) (*desync.Chunk, error) {
	switch s.enter("get", id) {
	case "error":
		return nil, errInjected
	case "missing":
		return nil, desync.ChunkMissing{ID: id}
	}
	s.mu.Lock()
	b, ok := s.m[id]
	s.mu.Unlock()
	if !ok {
		return nil, desync.ChunkMissing{ID: id}
	}
	return desync.NewChunkWithID(id, b, false)
}

func (s *simStore) HasChunk(id desync.ChunkID) (bool, error) {
	switch s.enter("has", id) {
	case "error":
		return false, errInjected
	case "missing":
		return false, nil
	}
	s.mu.Lock()
	_, ok := s.m[id]
	s.mu.Unlock()
	return ok, nil
}

func (s *simStore) StoreChunk(ch *desync.Chunk) error {
	id := ch.ID()
	switch s.enter("store", id) {
	case "error", "missing":
		return errInjected
	}
	b, err := ch.Data()
	if err != nil {
		return err
	}
	s.mu.Lock()
	s.m[id] = append([]byte(nil), b...)
	s.mu.Unlock()
	return nil
}
func (s *simStore) Close() error   { return nil }
func (s *simStore) String() string { return "sim:" + s.name }

func (s *simStore) ids() []desync.ChunkID {
	var out []desync.ChunkID
	for id := range s.m {
		out = append(out, id)
	}
	sort.Slice(out, func(i, j int) bool { return bytes.Compare(out[i][:], out[j][:]) < 0 })
	return out
}

// ---- simulated reader ----

// fragReader hands out data in tape-seeded fragments and can fail.
type fragReader struct {
	data    []byte
	pos     int
	r       *rand.Rand
	mode    int // 0 full, 1 one byte, 2 random short, 3 random short with (0,nil) reads
	failAt  int // read ordinal at which an error is returned (0 = never)
	reads   int
	eofWith bool // return io.EOF together with the last bytes
	Failed  bool
}

var errReader = errors.New("injected reader failure")

func (f *fragReader) Read(p []byte) (int, error) {
	f.reads++
	if f.failAt > 0 && f.reads == f.failAt {
		f.Failed = true
		return 0, errReader
	}
	if len(p) == 0 {
		return 0, nil
	}
	if f.pos >= len(f.data) {
		return 0, io.EOF
	}
	n := len(p)
	switch f.mode {
	case 1:
		n = 1
	case 2, 3:
		if f.mode == 3 && f.r.IntN(5) == 0 {
			return 0, nil
		}
		n = 1 + f.r.IntN(len(p))
		if f.r.IntN(3) == 0 && n > 64 {
			n = 1 + f.r.IntN(64)
		}
	}
	if n > len(f.data)-f.pos {
		n = len(f.data) - f.pos
	}
	copy(p, f.data[f.pos:f.pos+n])
	f.pos += n
	if f.eofWith && f.pos == len(f.data) {
		return n, io.EOF
	}
	return n, nil
}
