package checks

import (
	"syscall"
	"unsafe"
)

// utimesNoFollow sets atime/mtime without following symlinks (utimensat AT_SYMLINK_NOFOLLOW).
func utimesNoFollow(path string, ts []syscall.Timespec) error {
	p, err := syscall.BytePtrFromString(path)
	if err != nil {
		return err
	}
	atFdcwd := -100
	const atSymlinkNofollow = 0x100
	_, _, e := syscall.Syscall6(syscall.SYS_UTIMENSAT, uintptr(atFdcwd), uintptr(unsafe.Pointer(p)), uintptr(unsafe.Pointer(&ts[0])), atSymlinkNofollow, 0, 0)
	if e != 0 {
		return e
	}
	return nil
}
