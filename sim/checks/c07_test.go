package checks

import (
	"bytes"
	"context"
	"errors"
	"fmt"
	"os"
	"path/filepath"
	"strings"
	"syscall"
	"testing"
	"time"

	"verif/fw"
	"verif/simrt"

	"github.com/folbricht/desync"
)

// ---- C07: a cancelled operation never reports success unless its work is complete ----

// c07Op is one long-running entry point: run executes it under the given
// runtime and context and reports (err, complete).
type c07Op struct {
	name  string
	reset func() error
	run   func(rt *simrt.RT, ctx context.Context) error
	// complete reports whether the work is in fact complete ("" = yes).
	complete func() string
}

func c07Assemble(c *fw.Case) *c07Op {
	s := genAsmScenario(c, true)
	c.Note("AssembleFile %s", s.describe())
	emu := &cloneEmu{c: c, enabled: s.clone}
	return &c07Op{
		name: "AssembleFile",
		reset: func() error {
			s.store = newSimStore(c, "store")
			s.store.fill(s.blob, s.idx.Chunks)
			desync.VerifSetCloneRangeHook(emu.hook)
			return s.restore()
		},
		run: func(rt *simrt.RT, ctx context.Context) error {
			s.store.rt = rt
			defer func() { s.store.rt = nil }()
			seeds, err := s.mkSeeds()
			if err != nil {
				return err
			}
			_, err = desync.AssembleFile(ctx, s.target, s.idx, s.store, seeds, desync.AssembleOptions{N: s.n, InvalidSeedAction: s.action})
			return err
		},
		complete: func() string {
			got, err := os.ReadFile(s.target)
			if err != nil {
				return err.Error()
			}
			if !bytes.Equal(got, s.blob) {
				return fmt.Sprintf("target (%d bytes) differs from the blob (%d bytes)", len(got), len(s.blob))
			}
			return ""
		},
	}
}

type c07Blob struct {
	sz   sizes
	blob []byte
	idx  desync.Index
	file string
	n    int
}

func c07GenBlob(c *fw.Case, minChunks int) *c07Blob {
	b := &c07Blob{}
	b.sz = asmSizes[c.Draw(6, "c07.sizes")]
	for tries := 0; tries < 4; tries++ {
		b.blob = genBlob(c, b.sz, 40*int(b.sz.max))
		b.idx = mkIndex(b.blob, b.sz)
		if len(b.idx.Chunks) >= minChunks {
			break
		}
	}
	b.file = filepath.Join(c.Dir(), "blob")
	b.n = c.Range(1, 6, "c07.n")
	return b
}

func c07Verify(c *fw.Case) *c07Op {
	b := c07GenBlob(c, 2)
	// the file is damaged in one chunk: VerifyIndex may only return nil if it looked at every chunk
	data := append([]byte(nil), b.blob...)
	damaged := false
	if len(data) > 0 {
		data[c.Draw(len(data), "damage.pos")] ^= 0x01
		damaged = true
	}
	c.Note("VerifyIndex sizes=%v chunks=%d n=%d damaged=%v", b.sz, len(b.idx.Chunks), b.n, damaged)
	return &c07Op{
		name:  "VerifyIndex",
		reset: func() error { return os.WriteFile(b.file, data, 0644) },
		run: func(rt *simrt.RT, ctx context.Context) error {
			return desync.VerifyIndex(ctx, b.file, b.idx, b.n, desync.NullProgressBar{})
		},
		complete: func() string {
			if damaged {
				return "the file does not match the index (one byte was changed), so a complete verification cannot have succeeded"
			}
			return ""
		},
	}
}

func storeHasAll(st *simStore, blob []byte, chunks []desync.IndexChunk) string {
	for _, ch := range chunks {
		if got, ok := st.m[ch.ID]; !ok || !bytes.Equal(got, blob[ch.Start:ch.Start+ch.Size]) {
			return fmt.Sprintf("chunk %x.. (offset %d) is not in the target store", ch.ID[:4], ch.Start)
		}
	}
	return ""
}

func c07Chop(c *fw.Case) *c07Op {
	b := c07GenBlob(c, 2)
	var st *simStore
	c.Note("ChopFile sizes=%v chunks=%d n=%d", b.sz, len(b.idx.Chunks), b.n)
	return &c07Op{
		name: "ChopFile",
		reset: func() error {
			st = newSimStore(c, "target")
			return os.WriteFile(b.file, b.blob, 0644)
		},
		run: func(rt *simrt.RT, ctx context.Context) error {
			st.rt = rt
			defer func() { st.rt = nil }()
			return desync.ChopFile(ctx, b.file, b.idx.Chunks, st, b.n, desync.NullProgressBar{})
		},
		complete: func() string { return storeHasAll(st, b.blob, b.idx.Chunks) },
	}
}

func c07Copy(c *fw.Case) *c07Op {
	b := c07GenBlob(c, 2)
	var src, dst *simStore
	var ids []desync.ChunkID
	seen := map[desync.ChunkID]bool{}
	for _, ch := range b.idx.Chunks {
		if !seen[ch.ID] {
			seen[ch.ID] = true
			ids = append(ids, ch.ID)
		}
	}
	c.Note("Copy chunks=%d n=%d", len(ids), b.n)
	return &c07Op{
		name: "Copy",
		reset: func() error {
			src = newSimStore(c, "src")
			src.fill(b.blob, b.idx.Chunks)
			dst = newSimStore(c, "dst")
			return nil
		},
		run: func(rt *simrt.RT, ctx context.Context) error {
			src.rt, dst.rt = rt, rt
			defer func() { src.rt, dst.rt = nil, nil }()
			return desync.Copy(ctx, ids, src, dst, b.n, desync.NullProgressBar{})
		},
		complete: func() string { return storeHasAll(dst, b.blob, b.idx.Chunks) },
	}
}

func c07ChunkStream(c *fw.Case) *c07Op {
	b := c07GenBlob(c, 2)
	var st *simStore
	var got desync.Index
	c.Note("ChunkStream sizes=%v chunks=%d n=%d", b.sz, len(b.idx.Chunks), b.n)
	return &c07Op{
		name: "ChunkStream",
		reset: func() error {
			st = newSimStore(c, "target")
			got = desync.Index{}
			return nil
		},
		run: func(rt *simrt.RT, ctx context.Context) error {
			st.rt = rt
			defer func() { st.rt = nil }()
			ck, err := desync.NewChunker(bytes.NewReader(b.blob), b.sz.min, b.sz.avg, b.sz.max)
			if err != nil {
				return err
			}
			got, err = desync.ChunkStream(ctx, ck, st, b.n)
			return err
		},
		complete: func() string {
			if cls, d := compareTables(got.Chunks, b.idx.Chunks); cls != "" {
				return "returned index does not describe the input: " + d
			}
			return storeHasAll(st, b.blob, b.idx.Chunks)
		},
	}
}

func c07IndexFromFile(c *fw.Case) *c07Op {
	b := c07GenBlob(c, 2)
	var got desync.Index
	c.Note("IndexFromFile sizes=%v chunks=%d n=%d", b.sz, len(b.idx.Chunks), b.n)
	return &c07Op{
		name:  "IndexFromFile",
		reset: func() error { got = desync.Index{}; return os.WriteFile(b.file, b.blob, 0644) },
		run: func(rt *simrt.RT, ctx context.Context) error {
			var err error
			got, _, err = desync.IndexFromFile(ctx, b.file, b.n, b.sz.min, b.sz.avg, b.sz.max, desync.NullProgressBar{})
			return err
		},
		complete: func() string {
			if cls, d := compareTables(got.Chunks, b.idx.Chunks); cls != "" {
				return "returned index does not describe the input: " + d
			}
			return ""
		},
	}
}

// tree-based entry points: Tar, UnTar, UnTarIndex
type c07Tree struct {
	src, dst string
	archive  []byte
	want     map[string]*treeEntry
}

func c07GenTree(c *fw.Case) (*c07Tree, error) {
	t := &c07Tree{src: filepath.Join(c.Dir(), "src"), dst: filepath.Join(c.Dir(), "dst")}
	if _, err := genTree(c, t.src, 14); err != nil {
		return nil, err
	}
	var err error
	if t.archive, err = tarTree(t.src); err != nil {
		return nil, err
	}
	t.want, err = snapshot(t.src)
	return t, err
}

func (t *c07Tree) treeComplete() string {
	got, err := snapshot(t.dst)
	if err != nil {
		return err.Error()
	}
	if cat, d := diffTrees(t.want, got, map[string]bool{}); cat != "" {
		return "unpacked tree is incomplete (" + cat + "): " + d
	}
	return ""
}

func c07Tar(c *fw.Case) *c07Op {
	t, err := c07GenTree(c)
	if err != nil {
		c.HarnessError("%v", err)
		return nil
	}
	var out bytes.Buffer
	c.Note("Tar entries=%d archive=%d bytes", len(t.want), len(t.archive))
	return &c07Op{
		name:  "Tar",
		reset: func() error { out.Reset(); return nil },
		run: func(rt *simrt.RT, ctx context.Context) error {
			return desync.Tar(ctx, &out, desync.NewLocalFS(t.src, desync.LocalFSOptions{}))
		},
		complete: func() string {
			if !bytes.Equal(out.Bytes(), t.archive) {
				return fmt.Sprintf("archive has %d of %d bytes", out.Len(), len(t.archive))
			}
			return ""
		},
	}
}

func c07UnTar(c *fw.Case) *c07Op {
	t, err := c07GenTree(c)
	if err != nil {
		c.HarnessError("%v", err)
		return nil
	}
	c.Note("UnTar entries=%d archive=%d bytes", len(t.want), len(t.archive))
	return &c07Op{
		name:  "UnTar",
		reset: func() error { os.RemoveAll(t.dst); return os.Mkdir(t.dst, 0755) },
		run: func(rt *simrt.RT, ctx context.Context) error {
			return desync.UnTar(ctx, &fragReader{data: t.archive, r: c.Rand("frag"), mode: 2}, desync.NewLocalFS(t.dst, desync.LocalFSOptions{}))
		},
		complete: t.treeComplete,
	}
}

func c07UnTarIndex(c *fw.Case) *c07Op {
	t, err := c07GenTree(c)
	if err != nil {
		c.HarnessError("%v", err)
		return nil
	}
	sz := sizes{64, 256, 1024}
	idx := mkIndex(t.archive, sz)
	n := c.Range(1, 5, "c07.n")
	var st *simStore
	c.Note("UnTarIndex entries=%d chunks=%d n=%d", len(t.want), len(idx.Chunks), n)
	return &c07Op{
		name: "UnTarIndex",
		reset: func() error {
			st = newSimStore(c, "store")
			st.fill(t.archive, idx.Chunks)
			os.RemoveAll(t.dst)
			return os.Mkdir(t.dst, 0755)
		},
		run: func(rt *simrt.RT, ctx context.Context) error {
			st.rt = rt
			defer func() { st.rt = nil }()
			return desync.UnTarIndex(ctx, desync.NewLocalFS(t.dst, desync.LocalFSOptions{}), idx, st, n, desync.NullProgressBar{})
		},
		complete: t.treeComplete,
	}
}

// c07StoreOp: LocalStore.Verify [repair] and LocalStore.Prune are long-running entry points with a context as well. nil
// after a cancellation means: every invalid chunk was reported (and removed with repair) / every unreferenced chunk
// and temporary file is gone.
func c07StoreOp(c *fw.Case) *c07Op {
	dir := filepath.Join(c.Dir(), "maint.store")
	r := c.Rand("maint.seed")
	n := c.Range(1, 4, "maint.n")
	prune := c.Bool("maint.prune")
	repair := c.Bool("maint.repair")
	type obj struct {
		id         desync.ChunkID
		data       []byte
		valid      bool
		referenced bool
	}
	var objs []obj
	for i, k := 0, c.Range(1, 9, "maint.chunks"); i < k; i++ {
		b := make([]byte, 1+r.IntN(300))
		for j := range b {
			b[j] = byte(r.IntN(256))
		}
		objs = append(objs, obj{id: desync.ChunkID(desync.Digest.Sum(b)), data: b, valid: prune || r.IntN(2) == 0, referenced: r.IntN(2) == 0})
	}
	keep := map[desync.ChunkID]struct{}{}
	for _, o := range objs {
		if o.referenced {
			keep[o.id] = struct{}{}
		}
	}
	tmp := filepath.Join(dir, "0000", ".tmp-cacnk.1234567")
	var out bytes.Buffer
	ls, _ := desync.NewLocalStore(c.Dir(), desync.StoreOptions{})
	name := "LocalStore.Verify"
	if prune {
		name = "LocalStore.Prune"
	}
	c.Note("%s n=%d repair=%v objects=%d", name, n, repair, len(objs))
	return &c07Op{
		name: name,
		reset: func() error {
			os.RemoveAll(dir)
			out.Reset()
			for i, o := range objs {
				f := chunkFile(dir, o.id, false)
				os.MkdirAll(filepath.Dir(f), 0755)
				z, _ := desync.Compress(o.data)
				if !o.valid {
					z, _ = desync.Compress([]byte(fmt.Sprintf("other data %d", i)))
				}
				if err := os.WriteFile(f, z, 0644); err != nil {
					return err
				}
			}
			os.MkdirAll(filepath.Dir(tmp), 0755)
			var err error
			ls, err = desync.NewLocalStore(dir, desync.StoreOptions{})
			if err != nil {
				return err
			}
			return os.WriteFile(tmp, []byte("partial"), 0644)
		},
		run: func(rt *simrt.RT, ctx context.Context) error {
			rt.YieldIO = true
			if prune {
				return ls.Prune(ctx, keep)
			}
			return ls.Verify(ctx, n, repair, &out)
		},
		complete: func() string {
			exists := func(p string) bool { _, err := os.Lstat(p); return err == nil }
			for _, o := range objs {
				f := chunkFile(dir, o.id, false)
				switch {
				case prune && !o.referenced && exists(f):
					return "unreferenced chunk " + o.id.String()[:8] + " is still in the store"
				case prune && exists(tmp):
					return "the abandoned temporary file is still there"
				case !prune && !o.valid && !strings.Contains(out.String(), o.id.String()):
					return "invalid chunk " + o.id.String()[:8] + " was not reported"
				case !prune && !o.valid && repair && exists(f):
					return "invalid chunk " + o.id.String()[:8] + " was not removed"
				}
			}
			return ""
		},
	}
}

var c07Ops = []func(c *fw.Case) *c07Op{c07Assemble, c07Verify, c07Chop, c07Copy, c07ChunkStream, c07IndexFromFile, c07Tar, c07UnTar, c07UnTarIndex, c07StoreOp}

func runC07(c *fw.Case) {
	if desyncBin() != "" && c.ChanceAdded(1, procRate(10), "c07.proc") {
		runC07Proc(c)
		return
	}
	defer desync.VerifSetCloneRangeHook(nil)
	op := c07Ops[c.Draw(len(c07Ops), "c07.op")](c)
	if op == nil {
		return
	}
	c.Class(op.name)
	// run A: no cancellation; records the schedule and its length
	if err := op.reset(); err != nil {
		c.HarnessError("%v", err)
		return
	}
	p0 := c.T.Len()
	var errA error
	srA := c.Sim(func(rt *simrt.RT) {
		rt.MaxSteps = 300000
		rt.Go("main", func() { errA = op.run(rt, context.Background()) })
	})
	if c.StdSimViolations(srA, op.name, false) {
		return
	}
	sched := append([]int(nil), c.T.Rec[p0:]...)
	S := srA.RT.Steps
	_ = errA // the un-cancelled outcome is judged by the other checks
	// runs B: same recorded schedule prefix, cancellation before scheduling decision k
	var ks []int
	if S <= 150 {
		for k := 0; k <= S+1; k++ {
			ks = append(ks, k)
		}
	} else {
		for i := 0; i < 60; i++ {
			ks = append(ks, c.Draw(S+2, "cancel.at"))
		}
	}
	for _, k := range ks {
		if err := op.reset(); err != nil {
			c.HarnessError("%v", err)
			return
		}
		var err error
		fired := false
		returned := false
		sr := c.SimWith(simrt.ReplayTape(sched), func(rt *simrt.RT) {
			rt.MaxSteps = 300000
			ctx, cancel := context.WithCancel(context.Background())
			rt.AtStep(k, func() { fired = true; cancel() })
			rt.Go("main", func() {
				defer cancel()
				err = op.run(rt, ctx)
				returned = true
			})
		})
		c.SubEval(1)
		if len(sr.Panics) > 0 {
			p := sr.Panics[0]
			c.Violate("panic", p.Site, "cancel at step %d of %d: task %s panicked in %s: %s", k, S, p.Task, p.Site, p.Value)
			return
		}
		if !returned {
			c.Violate("hang-after-cancel", op.name, "cancel at step %d of %d: the call never returned (%s %v)", k, S, sr.Aborted, sr.RT.HangTasks)
			return
		}
		if !fired {
			continue
		}
		c.Fault("context-cancelled")
		if err == nil {
			if why := op.complete(); why != "" {
				c.Violate("nil-after-cancel", op.name, "context cancelled before scheduling step %d of %d; %s returned nil but the work is not complete: %s", k, S, op.name, why)
				return
			}
			c.Probe("cancelled-but-complete")
		} else {
			c.Probe("cancelled-error")
		}
	}
	c.Outcome("ok")
}

func TestC07(t *testing.T) {
	fw.Main(t, &fw.Check{ID: "C07", Level: "exploration", Run: runC07})
}

// ---- C07 (process level): SIGINT/SIGTERM to the real binary while a request is held ----

func runC07Proc(c *fw.Case) {
	c.Probe("process-level-case (real desync binary)")
	if c.ChanceAdded(1, 8, "proc.s3prune") {
		runC07ProcS3Prune(c)
		return
	}
	cmdKind := c.Draw(7, "proc.cmd")
	names := []string{"extract", "extract --in-place", "chop", "cache", "make", "untar -i", "tar -i"}
	sig := []syscall.Signal{syscall.SIGINT, syscall.SIGTERM}[c.Draw(2, "proc.sig")]
	n := []string{"1", "1", "3"}[c.Draw(3, "proc.n")]

	dir := c.Dir()
	out := filepath.Join(dir, "out")
	var (
		blob     []byte
		idx      desync.Index
		prior    []byte
		srcTree  string
		wantTree map[string]*treeEntry
	)
	sz := sizes{256, 1024, 4096}
	if cmdKind == 4 || cmdKind == 6 {
		sz = sizes{1024, 4096, 16384} // the CLI takes chunk sizes in KiB
	}
	if cmdKind == 5 || cmdKind == 6 {
		srcTree = filepath.Join(dir, "src")
		if _, err := genTree(c, srcTree, 25); err != nil {
			c.HarnessError("%v", err)
			return
		}
		var err error
		if blob, err = tarTree(srcTree); err != nil {
			c.HarnessError("%v", err)
			return
		}
		wantTree, _ = snapshot(srcTree)
	} else {
		for tries := 0; tries < 5; tries++ {
			blob = genBlob(c, sz, 20*int(sz.max))
			if len(refIndex(blob, sz)) >= 4 {
				break
			}
		}
	}
	idx = mkIndex(blob, sz)
	if cmdKind == 5 || cmdKind == 6 {
		idx.Index.FeatureFlags |= desync.TarFeatureFlags
	}
	indexFile := filepath.Join(dir, "blob.caibx")
	blobFile := filepath.Join(dir, "blob")
	cacheDir := filepath.Join(dir, "cache")
	writeIndex := func() {
		f, _ := os.Create(indexFile)
		idx.WriteTo(f)
		f.Close()
	}
	if c.Bool("proc.prior") && cmdKind <= 1 {
		prior = editBlob(c, blob, "prior")
	}
	// flags that change what the command does after the work (statistics instead of / in addition to the result)
	printStats := (cmdKind == 0 || cmdKind == 1 || cmdKind == 4) && c.Bool("proc.printstats")
	useCache := (cmdKind == 0 || cmdKind == 1 || cmdKind == 5) && c.Chance(1, 3, "proc.cache")
	gnuTarOut := cmdKind == 5 && c.ChanceAdded(1, 3, "proc.gnutar") // untar into a tar file instead of a directory
	c.Note("real `desync %s` sig=%v n=%s chunks=%d print-stats=%v cache=%v", names[cmdKind], sig, n, len(idx.Chunks), printStats, useCache)
	c.Class(fmt.Sprintf("proc %s sig=%v n=%s stats=%v cache=%v gnutar=%v", names[cmdKind], sig, n, printStats, useCache, gnuTarOut))
	var holdKind string
	var args func(g *gateServer) []string
	switch cmdKind {
	case 0, 1:
		holdKind = "GET"
		args = func(g *gateServer) []string {
			a := []string{"extract", "-n", n, "-s", g.url()}
			if cmdKind == 1 {
				a = append(a, "--in-place")
			}
			if printStats {
				a = append(a, "--print-stats")
			}
			if useCache {
				a = append(a, "-c", cacheDir)
			}
			return append(a, indexFile, out)
		}
	case 2:
		holdKind = "PUT"
		args = func(g *gateServer) []string { return []string{"chop", "-n", n, "-s", g.url(), indexFile, blobFile} }
	case 3:
		holdKind = "GET"
		args = func(g *gateServer) []string {
			return []string{"cache", "-n", n, "-s", g.url(), "-c", cacheDir, indexFile}
		}
	case 4:
		holdKind = "PUT"
		args = func(g *gateServer) []string {
			if printStats {
				return []string{"make", "--print-stats", "-n", n, "-m", "1:4:16", "-s", g.url(), indexFile, blobFile}
			}
			return []string{"make", "-n", n, "-m", "1:4:16", "-s", g.url(), indexFile, blobFile}
		}
	case 6:
		holdKind = "PUT"
		args = func(g *gateServer) []string {
			return []string{"tar", "-i", "-n", n, "-m", "1:4:16", "-s", g.url(), indexFile, srcTree}
		}
	case 5:
		holdKind = "GET"
		args = func(g *gateServer) []string {
			a := []string{"untar", "-i", "-n", n, "-s", g.url()}
			if useCache {
				a = append(a, "-c", cacheDir)
			}
			if gnuTarOut {
				a = append(a, "--output-format", "gnu-tar")
			}
			return append(a, indexFile, out)
		}
	}
	reset := func() {
		os.RemoveAll(out)
		os.RemoveAll(cacheDir)
		os.MkdirAll(cacheDir, 0755)
		if prior != nil {
			os.WriteFile(out, prior, 0644)
		}
		if cmdKind == 5 && !gnuTarOut {
			os.MkdirAll(out, 0755)
		}
		os.WriteFile(blobFile, blob, 0644)
		if cmdKind == 4 || cmdKind == 6 {
			os.Remove(indexFile)
		} else {
			writeIndex()
		}
	}
	serve := func() *gateServer {
		g, err := newGateServer(cmdKind == 2 || cmdKind == 4 || cmdKind == 6)
		if err != nil {
			c.HarnessError("%v", err)
			return nil
		}
		if holdKind == "GET" {
			for _, ch := range idx.Chunks {
				g.addChunk(blob[ch.Start : ch.Start+ch.Size])
			}
		}
		return g
	}
	complete := func(g *gateServer) string {
		switch cmdKind {
		case 0, 1:
			got, err := os.ReadFile(out)
			if err != nil || !bytes.Equal(got, blob) {
				return "the destination does not hold the blob"
			}
		case 2, 4, 6:
			for _, ch := range idx.Chunks {
				s := ch.ID.String()
				if _, ok := g.stored["/"+s[:4]+"/"+s+".cacnk"]; !ok {
					return "chunk " + s[:8] + " was not stored"
				}
			}
			if (cmdKind == 4 && !printStats) || cmdKind == 6 {
				f, err := os.Open(indexFile)
				if err != nil {
					return "no index file was written"
				}
				defer f.Close()
				got, err := desync.IndexFromReader(f)
				if err != nil {
					return "index file unreadable: " + err.Error()
				}
				if cls, d := compareTables(got.Chunks, idx.Chunks); cls != "" {
					return "index does not describe the input: " + d
				}
			}
		case 3:
			ls, _ := desync.NewLocalStore(cacheDir, desync.StoreOptions{})
			for _, ch := range idx.Chunks {
				if ok, _ := ls.HasChunk(ch.ID); !ok {
					return "chunk " + ch.ID.String()[:8] + " is not in the cache"
				}
			}
		case 5:
			if gnuTarOut {
				// complete = a well-formed archive that lists every entry, files with their content (what GNU tar
				// output cannot carry, and its known mode/type defects, are C05's business)
				b, err := os.ReadFile(out)
				if err != nil {
					return err.Error()
				}
				gt, perr := parseGnuTar(b)
				if perr != nil {
					return perr.Error()
				}
				for p, e := range wantTree {
					g := gt[p]
					if g == nil {
						return fmt.Sprintf("%q is missing from the tar output", p)
					}
					if e.Type == "file" && !bytes.Equal(g.Content, e.Content) {
						return fmt.Sprintf("%q has other content in the tar output", p)
					}
				}
				return ""
			}
			got, err := snapshot(out)
			if err != nil {
				return err.Error()
			}
			if cat, d := diffTrees(wantTree, got, map[string]bool{}); cat != "" {
				return "tree incomplete: " + d
			}
		}
		return ""
	}
	// full run: must succeed and be complete; counts the gated requests
	reset()
	g := serve()
	if g == nil {
		return
	}
	res, err := runPlain(args(g)...)
	total := len(g.requests(holdKind))
	why := complete(g)
	g.close()
	if err != nil {
		c.HarnessError("%v", err)
		return
	}
	if gnuTarOut && res.exit != 0 {
		c.Outcome("gnu-tar-refused") // xattrs, long names: GNU tar cannot represent everything
		return
	}
	if res.exit != 0 || why != "" {
		c.Violate("command-failed", "desync "+names[cmdKind], "un-signalled run: exit %d, %s: %s", res.exit, why, res.output)
		return
	}
	ks := map[int]bool{1: true, total: true}
	for i := 0; i < 6 && total > 0; i++ {
		ks[1+c.Draw(total, "proc.k")] = true
	}
	for k := 1; k <= total; k++ {
		if !ks[k] {
			continue
		}
		reset()
		g := serve()
		if g == nil {
			return
		}
		g.holdKind, g.holdAt = holdKind, k
		res, err := runGated(g, sig, args(g)...)
		why := complete(g)
		g.close()
		if errors.Is(err, errProcTimeout) {
			c.Probe("procsim-timeout-case-dropped")
			c.Outcome("dropped")
			return
		}
		if err != nil {
			c.HarnessError("signal at request %d: %v", k, err)
			return
		}
		if !res.heldSeen {
			continue
		}
		c.SubEval(1)
		c.Fault("signal-" + sig.String())
		if res.exit == 0 && why != "" {
			c.Violate("exit-0-after-signal", "desync "+names[cmdKind], "%v while %s request %d of %d was in flight: the command exited 0 but %s", sig, holdKind, k, total, why)
			return
		}
		if cmdKind == 0 && res.exit != 0 {
			now, rerr := os.ReadFile(out)
			if (prior == nil && rerr == nil) || (prior != nil && !bytes.Equal(now, prior)) {
				c.Violate("destination-touched", "desync extract", "%v at request %d of %d: extract failed (exit %d) but the destination path changed", sig, k, total, res.exit)
				return
			}
		}
	}
	c.Outcome("ok")
}

// runC07ProcS3Prune: `desync prune` on an S3 store, interrupted while the listing or a removal is in flight. Exit
// status 0 means what it means without a signal: no unreferenced chunk of the store's format is left.
func runC07ProcS3Prune(c *fw.Case) {
	r := c.Rand("s3prune.seed")
	sig := []syscall.Signal{syscall.SIGINT, syscall.SIGTERM}[c.Draw(2, "proc.sig")]
	n := c.Range(2, 12, "s3prune.objects")
	prefix := []string{"", "pfx", "store/a"}[c.Draw(3, "s3prune.prefix")]
	pfx := prefix
	if pfx != "" {
		pfx += "/"
	}
	type obj struct {
		key string
		ref bool
	}
	var objs []obj
	idx := desync.Index{Index: desync.FormatIndex{FeatureFlags: desync.CaFormatExcludeNoDump | desync.CaFormatSHA512256, ChunkSizeMin: 64, ChunkSizeAvg: 256, ChunkSizeMax: 1024}}
	var pos uint64
	unref := 0
	for i := 0; i < n; i++ {
		var id desync.ChunkID
		for j := range id {
			id[j] = byte(r.IntN(256))
		}
		sid := id.String()
		o := obj{key: pfx + sid[:4] + "/" + sid + ".cacnk", ref: r.IntN(2) == 0}
		if o.ref {
			idx.Chunks = append(idx.Chunks, desync.IndexChunk{ID: id, Start: pos, Size: 100})
			pos += 100
		} else {
			unref++
		}
		objs = append(objs, o)
	}
	if unref == 0 {
		c.Outcome("empty")
		return
	}
	indexFile := filepath.Join(c.Dir(), "keep.caibx")
	writeIndexFile(indexFile, idx)
	env := []string{"S3_ACCESS_KEY=verif", "S3_SECRET_KEY=verifsecret", "S3_REGION=us-east-1"}
	c.Class(fmt.Sprintf("proc prune (S3) sig=%v objects<=%d", sig, (n+3)/4*4))
	c.NonTrivial()
	serve := func() (*s3Sim, []string) {
		s3, err := newS3Sim()
		if err != nil {
			c.HarnessError("%v", err)
			return nil, nil
		}
		for _, o := range objs {
			s3.objects[o.key] = []byte("chunk object")
		}
		return s3, []string{"prune", "-y", "-s", "s3+http://" + s3.ln.Addr().String() + "/bucket/" + prefix + "?lookup=path", indexFile}
	}
	left := func(s3 *s3Sim) int {
		s3.mu.Lock()
		defer s3.mu.Unlock()
		k := 0
		for _, o := range objs {
			if _, there := s3.objects[o.key]; there && !o.ref {
				k++
			}
		}
		return k
	}
	// un-signalled run
	s3, args := serve()
	if s3 == nil {
		return
	}
	exit, _, stderr, err := runDesyncEnv(env, 90*time.Second, args...)
	l := left(s3)
	s3.close()
	if errors.Is(err, errProcTimeout) {
		c.Probe("procsim-timeout-case-dropped")
		return
	}
	if err != nil {
		c.HarnessError("%v", err)
		return
	}
	if exit != 0 || l != 0 {
		c.Violate("command-failed", "desync prune (S3)", "un-signalled run: exit %d, %d unreferenced object(s) left: %s", exit, l, tailBytes(stderr, 300))
		return
	}
	points := []struct {
		kind string
		at   int
	}{{"LIST", 1}, {"DELETE", 1}, {"DELETE", unref}, {"DELETE", 1 + c.Draw(unref, "s3prune.k")}}
	// the schedule inside the child is the kernel's, not ours: each point is run a few times so that a
	// violation which depends on it (a select between a closed done channel and a ready receiver) is met,
	// and met again on replay
	var runs []struct {
		kind string
		at   int
	}
	for _, pt := range points {
		for rep := 0; rep < 4; rep++ {
			runs = append(runs, pt)
		}
	}
	for _, pt := range runs {
		s3, args := serve()
		if s3 == nil {
			return
		}
		s3.holdKind, s3.holdAt = pt.kind, pt.at
		res, err := runHeld(s3.held, s3.release, env, sig, args...)
		l := left(s3)
		s3.close()
		if errors.Is(err, errProcTimeout) {
			c.Probe("procsim-timeout-case-dropped")
			return
		}
		if err != nil {
			c.HarnessError("%v", err)
			return
		}
		if !res.heldSeen {
			continue
		}
		c.SubEval(1)
		c.Fault("signal-" + sig.String())
		if res.exit == 0 && l != 0 {
			c.Violate("exit-0-after-signal", "desync prune (S3)", "%v while %s request %d was in flight: the command exited 0 but %d unreferenced object(s) are still in the store", sig, pt.kind, pt.at, l)
			return
		}
	}
	c.Outcome("ok")
}
