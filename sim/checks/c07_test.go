package checks

import (
	"bytes"
	"context"
	"fmt"
	"os"
	"path/filepath"
	"testing"

	"verif/fw"
	"verif/simrt"

	"github.com/folbricht/desync"
)

// ---- C07: a cancelled operation never reports success unless its work is complete ----

// c07Op is one long-running entry point: run executes it under the given
// runtime and context and reports (err, complete).
type c07Op struct {
	name  string
	reset func() error
	run   func(rt *simrt.RT, ctx context.Context) error
	// complete reports whether the work is in fact complete ("" = yes).
	complete func() string
}

func c07Assemble(c *fw.Case) *c07Op {
	s := genAsmScenario(c, true)
	c.Note("AssembleFile %s", s.describe())
	emu := &cloneEmu{c: c, enabled: s.clone}
	return &c07Op{
		name: "AssembleFile",
		reset: func() error {
			s.store = newSimStore(c, "store")
			s.store.fill(s.blob, s.idx.Chunks)
			desync.VerifSetCloneRangeHook(emu.hook)
			return s.restore()
		},
		run: func(rt *simrt.RT, ctx context.Context) error {
			s.store.rt = rt
			defer func() { s.store.rt = nil }()
			seeds, err := s.mkSeeds()
			if err != nil {
				return err
			}
			_, err = desync.AssembleFile(ctx, s.target, s.idx, s.store, seeds, desync.AssembleOptions{N: s.n, InvalidSeedAction: s.action})
			return err
		},
		complete: func() string {
			got, err := os.ReadFile(s.target)
			if err != nil {
				return err.Error()
			}
			if !bytes.Equal(got, s.blob) {
				return fmt.Sprintf("target (%d bytes) differs from the blob (%d bytes)", len(got), len(s.blob))
			}
			return ""
		},
	}
}

type c07Blob struct {
	sz   sizes
	blob []byte
	idx  desync.Index
	file string
	n    int
}

func c07GenBlob(c *fw.Case, minChunks int) *c07Blob {
	b := &c07Blob{}
	b.sz = asmSizes[c.Draw(6, "c07.sizes")]
	for tries := 0; tries < 4; tries++ {
		b.blob = genBlob(c, b.sz, 40*int(b.sz.max))
		b.idx = mkIndex(b.blob, b.sz)
		if len(b.idx.Chunks) >= minChunks {
			break
		}
	}
	b.file = filepath.Join(c.Dir(), "blob")
	b.n = c.Range(1, 6, "c07.n")
	return b
}

func c07Verify(c *fw.Case) *c07Op {
	b := c07GenBlob(c, 2)
	// the file is damaged in one chunk: VerifyIndex may only return nil if it looked at every chunk
	data := append([]byte(nil), b.blob...)
	damaged := false
	if len(data) > 0 {
		data[c.Draw(len(data), "damage.pos")] ^= 0x01
		damaged = true
	}
	c.Note("VerifyIndex sizes=%v chunks=%d n=%d damaged=%v", b.sz, len(b.idx.Chunks), b.n, damaged)
	return &c07Op{
		name:  "VerifyIndex",
		reset: func() error { return os.WriteFile(b.file, data, 0644) },
		run: func(rt *simrt.RT, ctx context.Context) error {
			return desync.VerifyIndex(ctx, b.file, b.idx, b.n, desync.NullProgressBar{})
		},
		complete: func() string {
			if damaged {
				return "the file does not match the index (one byte was changed), so a complete verification cannot have succeeded"
			}
			return ""
		},
	}
}

func storeHasAll(st *simStore, blob []byte, chunks []desync.IndexChunk) string {
	for _, ch := range chunks {
		if got, ok := st.m[ch.ID]; !ok || !bytes.Equal(got, blob[ch.Start:ch.Start+ch.Size]) {
			return fmt.Sprintf("chunk %x.. (offset %d) is not in the target store", ch.ID[:4], ch.Start)
		}
	}
	return ""
}

func c07Chop(c *fw.Case) *c07Op {
	b := c07GenBlob(c, 2)
	var st *simStore
	c.Note("ChopFile sizes=%v chunks=%d n=%d", b.sz, len(b.idx.Chunks), b.n)
	return &c07Op{
		name: "ChopFile",
		reset: func() error {
			st = newSimStore(c, "target")
			return os.WriteFile(b.file, b.blob, 0644)
		},
		run: func(rt *simrt.RT, ctx context.Context) error {
			st.rt = rt
			defer func() { st.rt = nil }()
			return desync.ChopFile(ctx, b.file, b.idx.Chunks, st, b.n, desync.NullProgressBar{})
		},
		complete: func() string { return storeHasAll(st, b.blob, b.idx.Chunks) },
	}
}

func c07Copy(c *fw.Case) *c07Op {
	b := c07GenBlob(c, 2)
	var src, dst *simStore
	var ids []desync.ChunkID
	seen := map[desync.ChunkID]bool{}
	for _, ch := range b.idx.Chunks {
		if !seen[ch.ID] {
			seen[ch.ID] = true
			ids = append(ids, ch.ID)
		}
	}
	c.Note("Copy chunks=%d n=%d", len(ids), b.n)
	return &c07Op{
		name: "Copy",
		reset: func() error {
			src = newSimStore(c, "src")
			src.fill(b.blob, b.idx.Chunks)
			dst = newSimStore(c, "dst")
			return nil
		},
		run: func(rt *simrt.RT, ctx context.Context) error {
			src.rt, dst.rt = rt, rt
			defer func() { src.rt, dst.rt = nil, nil }()
			return desync.Copy(ctx, ids, src, dst, b.n, desync.NullProgressBar{})
		},
		complete: func() string { return storeHasAll(dst, b.blob, b.idx.Chunks) },
	}
}

func c07ChunkStream(c *fw.Case) *c07Op {
	b := c07GenBlob(c, 2)
	var st *simStore
	var got desync.Index
	c.Note("ChunkStream sizes=%v chunks=%d n=%d", b.sz, len(b.idx.Chunks), b.n)
	return &c07Op{
		name: "ChunkStream",
		reset: func() error {
			st = newSimStore(c, "target")
			got = desync.Index{}
			return nil
		},
		run: func(rt *simrt.RT, ctx context.Context) error {
			st.rt = rt
			defer func() { st.rt = nil }()
			ck, err := desync.NewChunker(bytes.NewReader(b.blob), b.sz.min, b.sz.avg, b.sz.max)
			if err != nil {
				return err
			}
			got, err = desync.ChunkStream(ctx, ck, st, b.n)
			return err
		},
		complete: func() string {
			if cls, d := compareTables(got.Chunks, b.idx.Chunks); cls != "" {
				return "returned index does not describe the input: " + d
			}
			return storeHasAll(st, b.blob, b.idx.Chunks)
		},
	}
}

func c07IndexFromFile(c *fw.Case) *c07Op {
	b := c07GenBlob(c, 2)
	var got desync.Index
	c.Note("IndexFromFile sizes=%v chunks=%d n=%d", b.sz, len(b.idx.Chunks), b.n)
	return &c07Op{
		name:  "IndexFromFile",
		reset: func() error { got = desync.Index{}; return os.WriteFile(b.file, b.blob, 0644) },
		run: func(rt *simrt.RT, ctx context.Context) error {
			var err error
			got, _, err = desync.IndexFromFile(ctx, b.file, b.n, b.sz.min, b.sz.avg, b.sz.max, desync.NullProgressBar{})
			return err
		},
		complete: func() string {
			if cls, d := compareTables(got.Chunks, b.idx.Chunks); cls != "" {
				return "returned index does not describe the input: " + d
			}
			return ""
		},
	}
}

var c07Ops = []func(c *fw.Case) *c07Op{c07Assemble, c07Verify, c07Chop, c07Copy, c07ChunkStream, c07IndexFromFile}

func runC07(c *fw.Case) {
	defer desync.VerifSetCloneRangeHook(nil)
	op := c07Ops[c.Draw(len(c07Ops), "c07.op")](c)
	c.Class(op.name)
	// run A: no cancellation; records the schedule and its length
	if err := op.reset(); err != nil {
		c.HarnessError("%v", err)
		return
	}
	p0 := c.T.Len()
	var errA error
	srA := c.Sim(func(rt *simrt.RT) {
		rt.MaxSteps = 300000
		rt.Go("main", func() { errA = op.run(rt, context.Background()) })
	})
	if c.StdSimViolations(srA, op.name, false) {
		return
	}
	sched := append([]int(nil), c.T.Rec[p0:]...)
	S := srA.RT.Steps
	_ = errA // the un-cancelled outcome is judged by the other checks
	// runs B: same recorded schedule prefix, cancellation before scheduling decision k
	var ks []int
	if S <= 150 {
		for k := 0; k <= S+1; k++ {
			ks = append(ks, k)
		}
	} else {
		for i := 0; i < 60; i++ {
			ks = append(ks, c.Draw(S+2, "cancel.at"))
		}
	}
	for _, k := range ks {
		if err := op.reset(); err != nil {
			c.HarnessError("%v", err)
			return
		}
		var err error
		fired := false
		returned := false
		sr := c.SimWith(simrt.ReplayTape(sched), func(rt *simrt.RT) {
			rt.MaxSteps = 300000
			ctx, cancel := context.WithCancel(context.Background())
			rt.AtStep(k, func() { fired = true; cancel() })
			rt.Go("main", func() {
				defer cancel()
				err = op.run(rt, ctx)
				returned = true
			})
		})
		c.SubEval(1)
		if len(sr.Panics) > 0 {
			p := sr.Panics[0]
			c.Violate("panic", p.Site, "cancel at step %d of %d: task %s panicked in %s: %s", k, S, p.Task, p.Site, p.Value)
			return
		}
		if !returned {
			c.Violate("hang-after-cancel", op.name, "cancel at step %d of %d: the call never returned (%s %v)", k, S, sr.Aborted, sr.RT.HangTasks)
			return
		}
		if !fired {
			continue
		}
		c.Fault("context-cancelled")
		if err == nil {
			if why := op.complete(); why != "" {
				c.Violate("nil-after-cancel", op.name, "context cancelled before scheduling step %d of %d; %s returned nil but the work is not complete: %s", k, S, op.name, why)
				return
			}
			c.Probe("cancelled-but-complete")
		} else {
			c.Probe("cancelled-error")
		}
	}
	c.Outcome("ok")
}

func TestC07(t *testing.T) {
	fw.Main(t, &fw.Check{ID: "C07", Level: "exploration", Run: runC07})
}
