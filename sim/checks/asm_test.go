package checks

import (
	"bytes"
	"fmt"
	"os"
	"path/filepath"
	"syscall"

	"verif/fw"

	"github.com/folbricht/desync"
)

// ---- scenario generator shared by C01 / C07 / C08: assembling a file from an index ----

type seedSpec struct {
	file        string
	idx         desync.Index
	validAtRest bool
	alias       bool // the seed's file is the target path
	desc        string
}

type asmScenario struct {
	sz       sizes
	blob     []byte
	idx      desync.Index
	store    *simStore
	seeds    []seedSpec
	target   string
	prior    string
	n        int
	action   desync.InvalidSeedAction
	clone    bool
	hasAlias bool
	allValid bool
	files    map[string][]byte // initial content of every file (nil = absent)
}

// restore puts every file of the scenario back to its initial content.
func (s *asmScenario) restore() error {
	for name, b := range s.files {
		if b == nil {
			os.Remove(name)
			continue
		}
		if err := os.WriteFile(name, b, 0644); err != nil {
			return err
		}
	}
	return nil
}

var asmSizes = []sizes{
	{48, 48, 96}, {48, 64, 256}, {64, 256, 1024}, {256, 256, 1024}, {256, 1024, 4096}, {512, 2048, 8192},
	{1000, 3000, 5000}, {2048, 4096, 8192}, {4096, 4096, 16384}, {48, 4096, 4096},
}

// editBlob applies tape-chosen edits (insert / delete / overwrite) to a copy of b.
func editBlob(c *fw.Case, b []byte, label string) []byte {
	r := c.Rand(label + ".seed")
	out := append([]byte(nil), b...)
	k := c.Range(0, 3, label+".edits")
	for i := 0; i < k; i++ {
		pos := 0
		if len(out) > 0 {
			pos = r.IntN(len(out) + 1)
		}
		l := 1 + r.IntN(600)
		switch c.Draw(3, label+".edit") {
		case 0: // insert random bytes
			ins := make([]byte, l)
			for j := range ins {
				ins[j] = byte(r.IntN(256))
			}
			out = append(out[:pos], append(ins, out[pos:]...)...)
		case 1: // delete
			e := pos + l
			if e > len(out) {
				e = len(out)
			}
			out = append(out[:pos], out[e:]...)
		case 2: // overwrite
			for j := pos; j < pos+l && j < len(out); j++ {
				out[j] = byte(r.IntN(256))
			}
		}
	}
	return out
}

func genAsmScenario(c *fw.Case, wantSeeds bool) *asmScenario {
	s := &asmScenario{}
	s.sz = asmSizes[c.Draw(len(asmSizes), "asm.sizes")]
	limit := 48 * int(s.sz.max)
	if limit > 98304 {
		limit = 98304
	}
	switch c.Draw(12, "asm.blobkind") {
	case 0:
		s.blob = nil // empty blob
	case 1:
		s.blob = make([]byte, c.Range(1, 5*int(s.sz.max), "zeros")) // all zero
	case 2:
		s.blob = genBlob(c, s.sz, int(s.sz.min)) // shorter than one chunk
	default:
		s.blob = genBlob(c, s.sz, limit)
	}
	s.idx = mkIndex(s.blob, s.sz)
	s.store = newSimStore(c, "store")
	s.store.fill(s.blob, s.idx.Chunks)
	dir := c.Dir()
	s.target = filepath.Join(dir, "target")
	s.n = c.Range(1, 8, "asm.n")
	s.action = desync.InvalidSeedAction(c.Draw(3, "asm.action"))
	s.clone = c.Bool("asm.clone")
	s.allValid = true

	// prior content of the target
	var prior []byte
	switch c.Draw(8, "asm.prior") {
	case 0:
		s.prior = "absent"
	case 1:
		s.prior = "empty"
		prior = []byte{}
	case 2:
		s.prior = "garbage-same-length"
		prior = make([]byte, len(s.blob))
		r := c.Rand("prior.seed")
		for i := range prior {
			prior[i] = byte(r.IntN(256))
		}
	case 3:
		s.prior = "longer"
		prior = append(editBlob(c, s.blob, "prior"), bytes.Repeat([]byte{0xaa}, c.Range(1, 5000, "prior.extra"))...)
	case 4:
		s.prior = "shorter"
		prior = editBlob(c, s.blob, "prior")
		if len(prior) > 0 {
			prior = prior[:c.Draw(len(prior), "prior.cut")]
		}
	case 5:
		s.prior = "older-version"
		prior = editBlob(c, s.blob, "prior")
	case 6:
		s.prior = "already-correct"
		prior = append([]byte(nil), s.blob...)
	case 7:
		s.prior = "nonzero-where-blob-is-zero"
		prior = bytes.Repeat([]byte{0x55}, len(s.blob))
	}
	s.files = map[string][]byte{s.target: nil}
	if prior != nil {
		s.files[s.target] = append([]byte{}, prior...)
		if err := os.WriteFile(s.target, prior, 0644); err != nil {
			c.HarnessError("%v", err)
		}
	}

	if wantSeeds {
		ns := c.Range(0, 3, "asm.seeds")
		for i := 0; i < ns; i++ {
			sp := seedSpec{file: filepath.Join(dir, fmt.Sprintf("seed%d", i)), validAtRest: true}
			kind := c.Draw(10, "seed.kind")
			data := editBlob(c, s.blob, fmt.Sprintf("seed%d", i))
			switch kind {
			case 0: // empty seed file + empty index
				data = nil
				sp.desc = "empty"
			case 1: // duplicate of the previous seed
				if i > 0 {
					s.seeds = append(s.seeds, s.seeds[i-1])
					continue
				}
				sp.desc = "edited"
			case 2: // the target itself as seed (in-place style)
				if prior != nil && !s.hasAlias {
					sp.file = s.target
					sp.alias = true
					sp.idx = mkIndex(prior, s.sz)
					sp.desc = "alias-target"
					s.hasAlias = true
					s.seeds = append(s.seeds, sp)
					continue
				}
				sp.desc = "edited"
			case 3: // identical to the blob
				data = append([]byte(nil), s.blob...)
				sp.desc = "identical"
			default:
				sp.desc = "edited"
			}
			sp.idx = mkIndex(data, s.sz)
			// corruption after indexing
			switch c.Draw(8, "seed.corrupt") {
			case 0: // stale: bytes changed after indexing
				if len(data) > 0 {
					r := c.Rand("stale.seed")
					for k := 0; k < 1+r.IntN(3); k++ {
						p := r.IntN(len(data))
						for j := p; j < p+1+r.IntN(300) && j < len(data); j++ {
							data[j] ^= byte(1 + r.IntN(255))
						}
					}
					sp.validAtRest = false
					sp.desc += "+stale"
				}
			case 1: // truncated file
				if len(data) > 0 {
					data = data[:c.Draw(len(data), "trunc")]
					sp.validAtRest = false
					sp.desc += "+truncated"
				}
			}
			if err := os.WriteFile(sp.file, data, 0644); err != nil {
				c.HarnessError("%v", err)
			}
			s.files[sp.file] = append([]byte{}, data...)
			if !sp.validAtRest {
				s.allValid = false
			}
			s.seeds = append(s.seeds, sp)
		}
	}
	return s
}

func (s *asmScenario) describe() string {
	var sd []string
	for _, x := range s.seeds {
		sd = append(sd, fmt.Sprintf("%s(%d chunks)", x.desc, len(x.idx.Chunks)))
	}
	return fmt.Sprintf("sizes=%v blob(%s) chunks=%d prior=%s seeds=%v n=%d action=%d clone=%v", s.sz, describeBlob(s.blob), len(s.idx.Chunks), s.prior, sd, s.n, s.action, s.clone)
}

func (s *asmScenario) mkSeeds() ([]desync.Seed, error) {
	var out []desync.Seed
	byFile := map[string]desync.Seed{}
	for _, sp := range s.seeds {
		if x, ok := byFile[sp.file]; ok && sp.desc != "" && false {
			out = append(out, x)
			continue
		}
		fs, err := desync.NewIndexSeed(s.target, sp.file, sp.idx)
		if err != nil {
			return nil, err
		}
		byFile[sp.file] = fs
		out = append(out, fs)
	}
	return out, nil
}

// ---- strict in-process emulation of FICLONERANGE (ioctl_ficlonerange(2), generic_remap_checks) ----

const emuBlock = 4096

type cloneEmu struct {
	c       *fw.Case
	enabled bool
	calls   int
	ok      int
	einval  int
}

func (e *cloneEmu) hook(dst, src *os.File, srcOff, srcLen, dstOff uint64) error {
	e.calls++
	if !e.enabled {
		return syscall.EOPNOTSUPP
	}
	sst, err := src.Stat()
	if err != nil {
		return err
	}
	dstat, err := dst.Stat()
	if err != nil {
		return err
	}
	srcSize, dstSize := uint64(sst.Size()), uint64(dstat.Size())
	inval := func() error { e.einval++; e.c.Probe("clone-einval"); return syscall.EINVAL }
	if srcOff%emuBlock != 0 || dstOff%emuBlock != 0 {
		return inval()
	}
	if srcLen == 0 { // "to EOF"
		if srcOff == srcSize {
			e.ok++
			return nil
		}
		if srcOff > srcSize {
			return inval()
		}
		srcLen = srcSize - srcOff
	}
	if srcOff+srcLen < srcOff || dstOff+srcLen < dstOff {
		return inval()
	}
	if srcOff+srcLen > srcSize { // would need shortening: not allowed for clone
		return inval()
	}
	blen := srcLen
	if srcLen%emuBlock != 0 {
		// unaligned length only if the source range ends at source EOF and the
		// destination range ends at or beyond destination EOF
		if srcOff+srcLen != srcSize || dstOff+srcLen < dstSize {
			return inval()
		}
		blen = (srcLen + emuBlock - 1) / emuBlock * emuBlock
	}
	if os.SameFile(sst, dstat) && dstOff+blen > srcOff && dstOff < srcOff+blen {
		return inval()
	}
	buf := make([]byte, srcLen)
	if _, err := src.ReadAt(buf, int64(srcOff)); err != nil {
		return err
	}
	if _, err := dst.WriteAt(buf, int64(dstOff)); err != nil {
		return err
	}
	e.ok++
	e.c.Probe("clone-ok")
	return nil
}
