package checks

import (
	"bytes"
	"fmt"
	"io"
	"runtime/debug"
	"strings"
	"sync"
	"testing"

	"verif/fw"
	"verif/simrt"

	"github.com/folbricht/desync"
)

// ---- C09: random-access reads through an index return exactly the blob's bytes ----

// catch runs f and turns a panic into a violation; it reports whether f panicked.
func panicSite(st, deflt string) string {
	for _, l := range strings.Split(st, "\n") {
		if strings.HasPrefix(l, "github.com/folbricht/desync.") && !strings.Contains(l, "Verif") && !strings.Contains(l, "verif") {
			fn := strings.TrimPrefix(l, "github.com/folbricht/desync.")
			if i := strings.LastIndex(fn, "("); i > 0 {
				fn = fn[:i]
			}
			return fn
		}
	}
	return deflt
}

// catch runs f (a call into desync outside the simulated runtime) and turns a panic - of the calling goroutine or of
// a goroutine desync started - into a violation.
func catch(c *fw.Case, site string, f func()) (panicked bool) {
	var mu sync.Mutex
	var gr any
	var gst string
	desync.VerifSetPanicHook(func(r any, st []byte) {
		mu.Lock()
		if gr == nil {
			gr, gst = r, string(st)
		}
		mu.Unlock()
	})
	defer func() {
		desync.VerifSetPanicHook(nil)
		if r := recover(); r != nil {
			panicked = true
			c.Violate("panic", panicSite(string(debug.Stack()), site), "%s panicked: %v", site, r)
			return
		}
		mu.Lock()
		defer mu.Unlock()
		if gr != nil {
			panicked = true
			c.Violate("panic", panicSite(gst, site), "a goroutine started by %s panicked: %v", site, gr)
		}
	}()
	f()
	return false
}

var c09Sizes = []sizes{{48, 48, 96}, {48, 64, 256}, {64, 64, 256}, {64, 256, 1024}, {256, 256, 1024}, {100, 100, 400}}

// genNullyBlob builds blobs with runs of null chunks and repeated chunks.
func genNullyBlob(c *fw.Case, sz sizes) []byte {
	switch c.Draw(10, "c09.blobkind") {
	case 0:
		return nil
	case 1:
		return genBlob(c, sz, int(sz.min)) // single short chunk
	case 2:
		return make([]byte, c.Range(1, 6, "nullchunks")*int(sz.max)+c.Draw(int(sz.max), "nulltail"))
	case 3, 4:
		return genDupBlob(c, sz)
	}
	b := genBlob(c, sz, 40*int(sz.max))
	if c.Bool("c09.nullrun") {
		r := c.Rand("nullrun.seed")
		p := 0
		if len(b) > 0 {
			p = r.IntN(len(b))
		}
		z := make([]byte, c.Range(1, 4, "nullrun.k")*int(sz.max)+c.Draw(100, "nullrun.d"))
		b = append(b[:p:p], append(z, b[p:]...)...)
	}
	return b
}

func runC09(c *fw.Case) {
	if desyncBin() != "" && c.ChanceAdded(1, procRate(400), "c09.proc") {
		runC09Proc(c)
		return
	}
	sz := c09Sizes[c.Draw(len(c09Sizes), "c09.sizes")]
	blob := genNullyBlob(c, sz)
	idx := mkIndex(blob, sz)
	L := int64(len(blob))
	st := newSimStore(c, "store")
	st.fill(blob, idx.Chunks)
	faulty := c.Chance(1, 2, "c09.faulty")
	if faulty {
		for i, n := 0, c.Range(1, 3, "nfaults"); i < n; i++ {
			kind := "error"
			if c.Bool("fault.missing") {
				kind = "missing"
			}
			st.faults = append(st.faults, storeFault{op: "get", nth: 1 + c.Draw(20, "fault.nth"), kind: kind})
		}
	}
	mode := c.Draw(3, "c09.mode") // 0 IndexPos history, 1 FUSE node sequential on several handles, 2 FUSE node, one handle shared by concurrent tasks
	c.Note("sizes=%v blob(%s) chunks=%d mode=%d faults=%v", sz, describeBlob(blob), len(idx.Chunks), mode, st.faults)
	c.Class(fmt.Sprintf("mode=%d sizes=%d/%d faulty=%v chunks<=%d", mode, sz.min, sz.max, faulty, (len(idx.Chunks)+7)/8*8))
	c.NonTrivial()
	nops := c.Range(1, 60, "nops")
	expect := func(off, n int64) []byte {
		if off >= L {
			return nil
		}
		e := off + n
		if e > L {
			e = L
		}
		return blob[off:e]
	}
	switch mode {
	case 0:
		var ip *desync.IndexPos
		if catch(c, "NewIndexReadSeeker", func() { ip = desync.NewIndexReadSeeker(idx, st) }) {
			return
		}
		pos := int64(0)
		for i := 0; i < nops && !c.Violated(); i++ {
			if c.Chance(2, 5, "op.seek") {
				whence := c.Draw(3, "whence")
				var off int64
				switch c.Draw(4, "seek.kind") {
				case 0:
					off = int64(c.Range(-10, int(L)+10, "seek.off"))
				case 1: // to a chunk boundary +-1
					if len(idx.Chunks) > 0 {
						ch := idx.Chunks[c.Draw(len(idx.Chunks), "seek.chunk")]
						off = int64(ch.Start) + int64(c.Range(-1, 1, "seek.d"))
					}
				case 2:
					off = int64(c.Range(-int(L)-5, 5, "seek.neg"))
				case 3:
					off = L - int64(c.Draw(3, "seek.end"))
				}
				base := int64(0)
				switch whence {
				case io.SeekCurrent:
					base = pos
				case io.SeekEnd:
					base = L
				}
				if c.Draw(3, "seek.rel") == 0 { // make the target land in range regardless of whence
					off = off - base
				}
				target := base + off
				var got int64
				var err error
				if catch(c, "IndexPos.Seek", func() { got, err = ip.Seek(off, whence) }) {
					return
				}
				c.SubEval(1)
				switch {
				case err == nil:
					if got != target || target < 0 {
						c.Violate("seek-wrong-position", "IndexPos.Seek", "Seek(%d, %d) from %d returned %d, want %d", off, whence, pos, got, target)
						return
					}
					pos = target
				case target >= 0 && target <= L && L > 0:
					c.Violate("seek-failed-in-range", "IndexPos.Seek", "Seek(%d, %d) from %d to in-range position %d (length %d) failed: %v", off, whence, pos, target, L, err)
					return
				default:
					// a failed seek must leave the position alone; the next read checks that against pos
				}
			} else {
				n := c.Draw(3*int(sz.max)+1, "read.len")
				if c.Chance(1, 8, "read.zero") {
					n = 0
				}
				buf := make([]byte, n)
				before := st.delivered
				var got int
				var err error
				if catch(c, "IndexPos.Read", func() { got, err = ip.Read(buf) }) {
					return
				}
				c.SubEval(1)
				faulted := st.delivered > before
				want := expect(pos, int64(n))
				if got > len(want) || !bytes.Equal(buf[:got], want[:got]) {
					c.Violate("read-wrong-data", "IndexPos.Read", "Read(len %d) at %d returned %d bytes that differ from the blob (length %d), err=%v", n, pos, got, L, err)
					return
				}
				if err != nil && err != io.EOF && !faulted {
					c.Violate("read-error-without-fault", "IndexPos.Read", "Read(len %d) at %d failed without an injected store fault: %v", n, pos, err)
					return
				}
				if err == io.EOF && pos+int64(got) != L {
					c.Violate("read-early-eof", "IndexPos.Read", "Read(len %d) at %d returned EOF after %d bytes, blob length %d", n, pos, got, L)
					return
				}
				if faulted && err == nil && got < len(want) {
					c.Violate("store-error-became-short-read", "IndexPos.Read", "a store error during Read(len %d) at %d surfaced as a short read of %d bytes with a nil error", n, pos, got)
					return
				}
				if !faulted && err == nil && got < len(want) {
					c.Violate("read-short", "IndexPos.Read", "Read(len %d) at %d returned %d bytes with a nil error, %d were available", n, pos, got, len(want))
					return
				}
				pos += int64(got)
			}
		}
	case 1, 2:
		var node *desync.VerifIndexNode
		node = desync.VerifNewIndexNode(idx, st)
		if node.Size() != uint64(L) {
			c.Violate("getattr-size", "indexFile.Getattr", "size %d, blob length %d", node.Size(), L)
			return
		}
		type req struct {
			h, size int
			off     int64
		}
		nh := c.Range(1, 3, "handles")
		if mode == 2 {
			nh = 1
		}
		var reqs []req
		for i := 0; i < nops; i++ {
			off := int64(c.Draw(int(L)+1, "fuse.off"))
			if c.Chance(1, 4, "fuse.boundary") && len(idx.Chunks) > 0 {
				ch := idx.Chunks[c.Draw(len(idx.Chunks), "fuse.chunk")]
				off = int64(ch.Start+ch.Size) - int64(c.Draw(3, "fuse.d"))
				if off < 0 {
					off = 0
				}
			}
			reqs = append(reqs, req{h: c.Draw(nh, "fuse.h"), size: c.Draw(3*int(sz.max)+1, "fuse.size"), off: off})
		}
		handles := make([]any, nh)
		open := func() bool {
			for i := range handles {
				var errno error
				if catch(c, "indexFile.Open", func() {
					h, e := node.Open()
					handles[i] = h
					if e != 0 {
						errno = e
					}
				}) {
					return false
				}
				if errno != nil {
					c.Violate("open-failed", "indexFile.Open", "%v", errno)
					return false
				}
			}
			return true
		}
		doReq := func(r req) {
			before := st.delivered
			data, errno := node.Read(handles[r.h], r.size, r.off)
			c.SubEval(1)
			faulted := st.delivered > before
			want := expect(r.off, int64(r.size))
			if errno != 0 {
				if !faulted && mode == 1 {
					c.Violate("read-error-without-fault", "indexFile.Read", "read(off %d, size %d) returned errno %v without an injected store fault", r.off, r.size, errno)
				}
				return
			}
			if faulted && mode == 1 && len(data) < len(want) {
				c.Violate("store-error-became-short-read", "indexFile.Read", "a store error during read(off %d, size %d) surfaced as %d bytes with errno 0", r.off, r.size, len(data))
				return
			}
			if mode == 2 && len(data) < len(want) && !bytes.Equal(data, want[:len(data)]) {
				c.Violate("read-wrong-data", "indexFile.Read", "read(off %d, size %d) returned %d wrong bytes", r.off, r.size, len(data))
				return
			}
			if mode == 2 && len(data) < len(want) {
				return // concurrent faults cannot be attributed to one request; data checked above
			}
			if !bytes.Equal(data, want) {
				c.Violate("read-wrong-data", "indexFile.Read", "read(off %d, size %d) returned %d bytes, want %d bytes of the blob (length %d); equal prefix=%v", r.off, r.size, len(data), len(want), L, bytes.HasPrefix(want, data))
			}
		}
		if mode == 1 {
			if !open() {
				return
			}
			for _, r := range reqs {
				if catch(c, "indexFile.Read", func() { doReq(r) }) || c.Violated() {
					return
				}
			}
		} else {
			ntasks := c.Range(2, 3, "fuse.tasks")
			sr := c.Sim(func(rt *simrt.RT) {
				st.rt = rt
				rt.MaxSteps = 100000
				rt.Go("opener", func() {
					h, _ := node.Open()
					handles[0] = h
					for t := 0; t < ntasks; t++ {
						t := t
						rt.Go(fmt.Sprintf("reader%d", t), func() {
							for i := t; i < len(reqs); i += ntasks {
								if c.Violated() {
									return
								}
								doReq(reqs[i])
							}
						})
					}
				})
			})
			st.rt = nil
			if c.StdSimViolations(sr, "indexFile.Read", true) {
				return
			}
		}
	}
	if !c.Violated() {
		c.Outcome("ok")
	}
}

func TestC09(t *testing.T) {
	fw.Main(t, &fw.Check{ID: "C09", Level: "exploration", Run: runC09})
}
