package checks

import (
	gnutar "archive/tar"
	"bytes"
	"context"
	"crypto/sha256"
	"crypto/sha512"
	"fmt"
	"io"
	"os"
	"path/filepath"
	"strconv"
	"strings"
	"testing"

	"verif/fw"
	"verif/simrt"

	"github.com/folbricht/desync"
)

// ---- C05: tar then untar reproduces the directory tree ----

func tarTree(root string) ([]byte, error) {
	var buf bytes.Buffer
	err := desync.Tar(context.Background(), &buf, desync.NewLocalFS(root, desync.LocalFSOptions{}))
	return buf.Bytes(), err
}

// gnuTarOf builds a PAX tar of a snapshot with archive/tar (depth-first order, no xattrs); ok is false when archive/tar
// itself cannot carry the names unchanged, i.e. the input would not describe the tree.
func gnuTarOf(want map[string]*treeEntry) ([]byte, bool) {
	var tb bytes.Buffer
	tw := gnutar.NewWriter(&tb)
	var paths []string
	for p := range want {
		paths = append(paths, p)
	}
	sortStrings(paths)
	for _, p := range paths {
		e := want[p]
		h := &gnutar.Header{Name: p, Mode: int64(e.Mode), Uid: int(e.UID), Gid: int(e.GID), ModTime: timeFromNs(e.MtimeNs), Format: gnutar.FormatPAX}
		switch e.Type {
		case "dir":
			h.Typeflag = gnutar.TypeDir
		case "file":
			h.Typeflag, h.Size = gnutar.TypeReg, int64(len(e.Content))
		case "symlink":
			h.Typeflag, h.Linkname = gnutar.TypeSymlink, e.Target
		case "char", "block":
			h.Typeflag = gnutar.TypeChar
			if e.Type == "block" {
				h.Typeflag = gnutar.TypeBlock
			}
			h.Devmajor = int64((e.Rdev >> 8) & 0xfff)
			h.Devminor = int64((e.Rdev & 0xff) | ((e.Rdev >> 12) & 0xfff00))
		}
		if err := tw.WriteHeader(h); err != nil {
			return nil, false
		}
		if e.Type == "file" {
			tw.Write(e.Content)
		}
	}
	tw.Close()
	chk := gnutar.NewReader(bytes.NewReader(tb.Bytes()))
	i := 0
	for {
		h, err := chk.Next()
		if err != nil {
			break
		}
		if i >= len(paths) || filepath.Clean(h.Name) != paths[i] {
			return nil, false
		}
		i++
	}
	if i != len(paths) {
		return nil, false
	}
	return tb.Bytes(), true
}

// parseGnuTar reads a tar archive with archive/tar into tree entries. archive/tar forgives a missing end-of-archive
// marker and missing padding, GNU tar does not: the archive must be a whole number of 512-byte blocks and end in two
// zero blocks.
func parseGnuTar(b []byte) (map[string]*treeEntry, error) {
	if len(b)%512 != 0 {
		return nil, fmt.Errorf("the archive has %d bytes, not a whole number of 512-byte blocks", len(b))
	}
	if len(b) < 1024 || !bytes.Equal(b[len(b)-1024:], make([]byte, 1024)) {
		return nil, fmt.Errorf("the archive (%d bytes) does not end in the two zero blocks that mark its end", len(b))
	}
	got := map[string]*treeEntry{}
	tr := gnutar.NewReader(bytes.NewReader(b))
	for {
		h, err := tr.Next()
		if err == io.EOF {
			break
		}
		if err != nil {
			return nil, fmt.Errorf("archive/tar cannot read the produced tar: %v", err)
		}
		name := filepath.Clean(h.Name)
		e := &treeEntry{Path: name, Mode: uint32(h.Mode) & 07777, UID: uint32(h.Uid), GID: uint32(h.Gid), MtimeNs: h.ModTime.UnixNano(), Xattrs: map[string]string{}}
		switch h.Typeflag {
		case gnutar.TypeDir:
			e.Type = "dir"
		case gnutar.TypeReg:
			e.Type = "file"
			e.Content, _ = io.ReadAll(tr)
			if e.Content == nil {
				e.Content = []byte{}
			}
		case gnutar.TypeSymlink:
			e.Type, e.Target, e.Mode = "symlink", h.Linkname, 0
		case gnutar.TypeChar:
			e.Type = "char"
		case gnutar.TypeBlock:
			e.Type = "block"
		}
		if e.Type == "char" || e.Type == "block" {
			major, minor := uint64(h.Devmajor), uint64(h.Devminor)
			e.Rdev = (major&0xfff)<<8 | (major&0xfffff000)<<32 | (minor & 0xff) | (minor&0xffffff00)<<12
		}
		got[name] = e
	}
	return got, nil
}

// parseMtree reads an mtree manifest as mtree(5) defines it: one entry per line, words separated by blanks, the first
// word the path with \ooo escapes, every other word keyword=value. It returns the entries and, for files, the size
// and digest words.
type mtreeFile struct {
	size   int64
	digest string
}

func parseMtree(b []byte) (map[string]*treeEntry, map[string]mtreeFile, error) {
	lines := strings.Split(strings.TrimSuffix(string(b), "\n"), "\n")
	if len(lines) == 0 || lines[0] != "#mtree v1.0" {
		return nil, nil, fmt.Errorf("no '#mtree v1.0' signature line")
	}
	unescape := func(s string) (string, error) {
		var o []byte
		for i := 0; i < len(s); i++ {
			if s[i] != '\\' {
				o = append(o, s[i])
				continue
			}
			if i+3 >= len(s) {
				return "", fmt.Errorf("dangling backslash in %q", s)
			}
			v, err := strconv.ParseUint(s[i+1:i+4], 8, 8)
			if err != nil {
				return "", fmt.Errorf("bad escape in %q", s)
			}
			o = append(o, byte(v))
			i += 3
		}
		return string(o), nil
	}
	got := map[string]*treeEntry{}
	files := map[string]mtreeFile{}
	for _, line := range lines[1:] {
		words := strings.Split(line, " ")
		if words[0] == "" {
			return nil, nil, fmt.Errorf("word: line %q begins with a blank", line)
		}
		name, err := unescape(words[0])
		if err != nil {
			return nil, nil, err
		}
		e := &treeEntry{Path: filepath.Clean(name), Xattrs: map[string]string{}}
		kv := map[string]string{}
		for _, w := range words[1:] {
			k, v, ok := strings.Cut(w, "=")
			if !ok || k == "" || v == "" {
				if t, isTime := kv["time"]; isTime && strings.HasSuffix(t, ".") {
					return nil, nil, fmt.Errorf("time: line %q: blanks inside the time value", line)
				}
				return nil, nil, fmt.Errorf("word: line %q: word %q is not keyword=value", line, w)
			}
			if _, dup := kv[k]; dup {
				return nil, nil, fmt.Errorf("line %q: keyword %q twice", line, k)
			}
			kv[k] = v
		}
		switch kv["type"] {
		case "dir", "file", "char", "block":
			e.Type = kv["type"]
		case "link":
			e.Type = "symlink"
			if e.Target, err = unescape(kv["target"]); err != nil {
				return nil, nil, err
			}
		default:
			return nil, nil, fmt.Errorf("line %q: type %q", line, kv["type"])
		}
		num := func(k string, base int) (uint64, error) {
			v, err := strconv.ParseUint(kv[k], base, 64)
			if err != nil {
				return 0, fmt.Errorf("line %q: %s=%q", line, k, kv[k])
			}
			return v, nil
		}
		m, err := num("mode", 8)
		if err != nil {
			return nil, nil, err
		}
		u, err := num("uid", 10)
		if err != nil {
			return nil, nil, err
		}
		g, err := num("gid", 10)
		if err != nil {
			return nil, nil, err
		}
		e.Mode, e.UID, e.GID = uint32(m), uint32(u), uint32(g)
		if e.Type == "symlink" {
			e.Mode = 0
		}
		sec, nsec, ok := strings.Cut(kv["time"], ".")
		si, err1 := strconv.ParseInt(sec, 10, 64)
		ni, err2 := strconv.ParseUint(nsec, 10, 64)
		if !ok || err1 != nil || err2 != nil || len(nsec) != 9 {
			return nil, nil, fmt.Errorf("line %q: time=%q is not seconds.nanoseconds", line, kv["time"])
		}
		e.MtimeNs = si*1e9 + int64(ni)
		if e.Type == "file" {
			sz, err := num("size", 10)
			if err != nil {
				return nil, nil, err
			}
			f := mtreeFile{size: int64(sz)}
			for _, k := range []string{"sha512256digest", "sha256digest"} {
				if v, ok := kv[k]; ok {
					f.digest = k + "=" + v
				}
			}
			files[e.Path] = f
		}
		if got[e.Path] != nil {
			return nil, nil, fmt.Errorf("path %q listed twice", e.Path)
		}
		got[e.Path] = e
	}
	return got, files, nil
}

// checkMtree compares an mtree manifest with the source tree. The format written by desync carries neither extended
// attributes nor device numbers; content is compared through size and digest.
func checkMtree(c *fw.Case, site string, out []byte, want map[string]*treeEntry, useSHA256 bool) bool {
	got, files, err := parseMtree(out)
	if err != nil {
		cat, msg, ok := strings.Cut(err.Error(), ": ")
		if !ok || strings.Contains(cat, " ") {
			cat, msg = "syntax", err.Error()
		}
		c.Violate("mtree-malformed", site+"/"+cat, "%s", msg)
		return false
	}
	key := "sha512256digest"
	digest := func(b []byte) []byte { s := sha512.Sum512_256(b); return s[:] }
	if useSHA256 {
		key = "sha256digest"
		digest = func(b []byte) []byte { s := sha256.Sum256(b); return s[:] }
	}
	for p, e := range got {
		w := want[p]
		if e.Type != "file" || w == nil || w.Type != "file" {
			if w != nil {
				e.Rdev = w.Rdev // not carried
			}
			continue
		}
		if files[p].size == int64(len(w.Content)) && files[p].digest == fmt.Sprintf("%s=%x", key, digest(w.Content)) {
			e.Content = w.Content
		} else {
			e.Content = []byte("size/digest words: " + fmt.Sprint(files[p].size) + " " + files[p].digest)
		}
	}
	for _, e := range want {
		if e.Type == "file" && e.Content == nil {
			e.Content = []byte{}
		}
	}
	for _, e := range got {
		if e.Type == "file" && e.Content == nil {
			e.Content = []byte{}
		}
	}
	if cat, d := diffTrees(want, got, map[string]bool{"xattr": true}); cat != "" {
		c.Violate("tree-differs", site+"/"+cat, "%s", d)
		return false
	}
	return true
}

func runC05(c *fw.Case) {
	if desyncBin() != "" && c.ChanceAdded(1, procRate(60), "c05.proc") {
		runC05Proc(c)
		return
	}
	sha256mode := c.Chance(1, 4, "sha256")
	if sha256mode {
		desync.Digest = desync.SHA256{}
		defer func() { desync.Digest = desync.SHA512256{} }()
	}
	src := filepath.Join(c.Dir(), "src")
	dst := filepath.Join(c.Dir(), "dst")
	nent, err := genTree(c, src, 40)
	if err != nil {
		c.HarnessError("tree generation: %v", err)
		return
	}
	want, err := snapshot(src)
	if err != nil {
		c.HarnessError("%v", err)
		return
	}
	path := c.Draw(4, "c05.path") // 0 catar direct, 1 caidx + store under the scheduler, 2 gnu-tar output, 3 tar-stream input
	names := []string{"catar", "caidx+store", "gnu-tar-out", "tar-stream-in"}
	c.Class(fmt.Sprintf("%s sha256=%v entries<=%d", names[path], sha256mode, (nent+7)/8*8))
	c.Note("path=%s entries=%d sha256=%v", names[path], nent, sha256mode)
	c.NonTrivial()
	var archive []byte
	if catch(c, "Tar", func() { archive, err = tarTree(src) }) {
		return
	}
	if err != nil {
		c.Violate("tar-failed", "Tar", "%v", err)
		return
	}
	// packing twice yields identical bytes
	if again, err2 := tarTree(src); err2 != nil || !bytes.Equal(again, archive) {
		c.Violate("archive-not-deterministic", "Tar", "two packings of the same tree differ (%d vs %d bytes, err=%v)", len(archive), len(again), err2)
		return
	}
	site := names[path]
	ignore := map[string]bool{}
	switch path {
	case 0:
		os.Mkdir(dst, 0755)
		if c.ChanceAdded(1, 3, "c05.prior") {
			if prepopulate(c, dst, want) > 0 {
				c.Fault("destination-not-empty")
			}
		}
		if catch(c, "UnTar", func() {
			err = desync.UnTar(context.Background(), bytes.NewReader(archive), desync.NewLocalFS(dst, desync.LocalFSOptions{}))
		}) {
			return
		}
		if err != nil {
			c.Violate("untar-failed", site, "%v", err)
			return
		}
	case 1:
		sz := []sizes{{256, 1024, 4096}, {64, 256, 1024}, {1000, 3000, 5000}}[c.Draw(3, "c05.sizes")]
		n1, n2 := c.Range(1, 6, "n.chunk"), c.Range(1, 6, "n.untar")
		st := newSimStore(c, "store")
		if c.Bool("c05.latency") {
			for i := 0; i < 3; i++ {
				st.faults = append(st.faults, storeFault{op: "get", nth: 1 + c.Draw(20, "delay.nth"), kind: "delay"})
			}
		}
		var idx desync.Index
		var cerr, uerr, terr error
		os.Mkdir(dst, 0755)
		sr := c.Sim(func(rt *simrt.RT) {
			st.rt = rt
			rt.MaxSteps = 400000
			rt.Go("main", func() {
				r, w := io.Pipe()
				rt.Go("tar", func() {
					terr = desync.Tar(context.Background(), w, desync.NewLocalFS(src, desync.LocalFSOptions{}))
					w.Close()
				})
				ck, e := desync.NewChunker(r, sz.min, sz.avg, sz.max)
				if e != nil {
					cerr = e
					return
				}
				idx, cerr = desync.ChunkStream(context.Background(), ck, st, n1)
				if cerr != nil || terr != nil {
					return
				}
				// what `tar -i` stores is read back by `untar -i` through the index codec
				var buf bytes.Buffer
				flags := desync.TarFeatureFlags // as cmd/desync/tar.go does
				if sha256mode {
					flags &^= desync.CaFormatSHA512256
				}
				idx.Index.FeatureFlags |= flags
				if _, e := idx.WriteTo(&buf); e != nil {
					uerr = e
					return
				}
				idx2, e := desync.IndexFromReader(&buf)
				if e != nil {
					uerr = fmt.Errorf("index written by tar -i cannot be read back: %w", e)
					return
				}
				uerr = desync.UnTarIndex(context.Background(), desync.NewLocalFS(dst, desync.LocalFSOptions{}), idx2, st, n2, desync.NullProgressBar{})
			})
		})
		st.rt = nil
		if c.StdSimViolations(sr, site, true) {
			return
		}
		if cerr != nil || terr != nil {
			c.Violate("tar-failed", site, "tar -i pipeline failed: chunk=%v tar=%v", cerr, terr)
			return
		}
		if uerr != nil {
			c.Violate("untar-failed", site, "%v", uerr)
			return
		}
		// the chunked archive is the same byte stream as the direct one
		var cat []byte
		for _, ch := range idx.Chunks {
			cat = append(cat, st.m[ch.ID]...)
		}
		if !bytes.Equal(cat, archive) {
			c.Violate("chunked-archive-differs", site, "concatenated chunks (%d bytes) differ from the direct archive (%d bytes)", len(cat), len(archive))
			return
		}
	case 2:
		if c.Draw(2, "c05.out") == 1 {
			// mtree manifest as output
			site = "mtree-out"
			var out bytes.Buffer
			if catch(c, "UnTar", func() {
				var mfs desync.MtreeFS
				if mfs, err = desync.NewMtreeFS(&out); err == nil {
					err = desync.UnTar(context.Background(), bytes.NewReader(archive), mfs)
				}
			}) {
				return
			}
			if err != nil {
				c.Violate("untar-failed", site, "%v", err)
				return
			}
			if checkMtree(c, site, out.Bytes(), want, sha256mode) {
				c.Outcome("ok")
			}
			return
		}
		var out bytes.Buffer
		if catch(c, "UnTar", func() {
			tw := desync.NewTarWriter(&out)
			err = desync.UnTar(context.Background(), bytes.NewReader(archive), tw)
			if err == nil {
				err = tw.Close()
			}
		}) {
			return
		}
		if err != nil {
			// GNU tar cannot represent everything (xattrs, long names need PAX): a refusal is not a wrong result
			c.Outcome("gnu-tar-refused")
			return
		}
		got, perr := parseGnuTar(out.Bytes())
		if perr != nil {
			c.Violate("gnu-tar-unreadable", site, "%v", perr)
			return
		}
		for _, e := range want {
			if e.Type == "file" && e.Content == nil {
				e.Content = []byte{}
			}
		}
		ignore["xattr"] = true
		ignore["mtime-subsecond"] = true
		if cat, d := diffTrees(want, got, ignore); cat != "" {
			c.Violate("tree-differs", site+"/"+cat, "%s", d)
			return
		}
		c.Outcome("ok")
		return
	case 3:
		// build a GNU/PAX tar of the tree with archive/tar, feed it through TarReader -> Tar -> UnTar
		tarBytes, ok := gnuTarOf(want)
		if !ok {
			c.Outcome("tar-input-not-representable")
			return
		}
		// fault: the tar stream ends inside a member; Tar has to report it (unless archive/tar itself takes the
		// cut stream for a complete archive)
		if c.ChanceAdded(1, 4, "c05.tarcut") {
			off := c.Draw(len(tarBytes), "c05.tarcut.at")
			if off%512 == 0 {
				off++
			}
			if off < len(tarBytes) && tarReadFails(tarBytes[:off]) {
				c.Fault("tar-input-truncated")
				var sink bytes.Buffer
				if catch(c, "Tar", func() {
					err = desync.Tar(context.Background(), &sink, desync.NewTarReader(bytes.NewReader(tarBytes[:off]), desync.TarReaderOptions{}))
				}) {
					return
				}
				if err == nil {
					c.Violate("truncated-input-accepted", site, "tar stream of %d bytes cut at %d: archive/tar reports the cut, Tar returned nil", len(tarBytes), off)
					return
				}
				c.Outcome("truncated-input-rejected")
				return
			}
		}
		tb := bytes.NewBuffer(tarBytes)
		var cat bytes.Buffer
		if catch(c, "Tar", func() {
			err = desync.Tar(context.Background(), &cat, desync.NewTarReader(tb, desync.TarReaderOptions{}))
		}) {
			return
		}
		if err != nil {
			c.Violate("tar-failed", site, "tar-stream input: %v", err)
			return
		}
		if catch(c, "UnTar", func() {
			os.Mkdir(dst, 0755)
			err = desync.UnTar(context.Background(), bytes.NewReader(cat.Bytes()), desync.NewLocalFS(dst, desync.LocalFSOptions{}))
		}) {
			return
		}
		if err != nil {
			c.Violate("untar-failed", site, "%v", err)
			return
		}
		ignore["xattr"] = true // not put into the tar input
	}
	got, err := snapshot(dst)
	if err != nil {
		c.HarnessError("%v", err)
		return
	}
	if cat, d := diffTrees(want, got, ignore); cat != "" {
		c.Violate("tree-differs", site+"/"+cat, "%s", d)
		return
	}
	c.Outcome("ok")
}

func TestC05(t *testing.T) {
	fw.Main(t, &fw.Check{ID: "C05", Level: "exploration", Run: runC05})
}
