// Package instr rewrites the non-test sources of package desync (whatever is
// currently in the repository under test) so that every synchronisation
// operation becomes a scheduling point owned by the simulator. The rewritten
// copies are never written into the repository: they are used through
// `go build -overlay`.
//
// Rules (see DESIGN.md §3.1):
//
//	R1 sync.Mutex/RWMutex/Once/Pool -> verifMutex/verifRWMutex/verifOnce/verifPool
//	R9 writes to captured variables inside goroutine closures are followed by a yield
//	R2 go f(a...)                   -> deterministic spawn token + start hook + panic capture
//	R3 g.Go(func() error {...})     -> g.Go(verifWrapErrFunc(func() error {...}))
//	R4 scheduling points around channel operations, selects, close, len/cap
//	   of channels, .Wait() and time.Sleep
//	R5 multi-case select            -> tape-ordered poll phase + original select
//	R6 verifIO(label) before statements that touch the file system
//	R7 CloneRange entry hook
//
// Pass A performs all edits that keep line numbers (insertions on the same
// line), pass B expands go statements and selects outermost-first.
package instr

import (
	"bytes"
	"encoding/json"
	"fmt"
	"go/ast"
	"go/build"
	"go/parser"
	"go/token"
	"os"
	"path/filepath"
	"sort"
	"strings"
)

type edit struct {
	start, end int // byte offsets; start==end => insertion
	text       string
	prio       int // order among insertions at same offset
}

func applyEdits(src []byte, edits []edit) ([]byte, error) {
	sort.SliceStable(edits, func(i, j int) bool {
		if edits[i].start != edits[j].start {
			return edits[i].start < edits[j].start
		}
		return edits[i].prio < edits[j].prio
	})
	var out bytes.Buffer
	pos := 0
	for _, e := range edits {
		if e.start < pos {
			return nil, fmt.Errorf("overlapping edits at offset %d", e.start)
		}
		out.Write(src[pos:e.start])
		out.WriteString(e.text)
		pos = e.end
	}
	out.Write(src[pos:])
	return out.Bytes(), nil
}

type ops struct{ send, recv, sel, cls, chlen, wait, sleep, io bool }

func (o ops) any() bool { return o.send || o.recv || o.sel || o.cls || o.chlen || o.wait || o.sleep }
func (o *ops) or(p ops) {
	o.send = o.send || p.send
	o.recv = o.recv || p.recv
	o.sel = o.sel || p.sel
	o.cls = o.cls || p.cls
	o.chlen = o.chlen || p.chlen
	o.wait = o.wait || p.wait
	o.sleep = o.sleep || p.sleep
	o.io = o.io || p.io
}

var ioPkgs = map[string]bool{"os": true, "ioutil": true, "tempfile": true, "syscall": true, "xattr": true}
var ioMethods = map[string]bool{"Write": true, "WriteAt": true, "WriteString": true, "Truncate": true, "Close": true, "Sync": true, "Rename": true, "Remove": true, "ReadAt": true, "Seek": true, "ReadFrom": true}
var ioPkgSkip = map[string]bool{"IsNotExist": true, "IsExist": true, "Getenv": true, "Getuid": true, "Getgid": true, "Geteuid": true, "IsPermission": true, "Exit": true, "Getpid": true, "FileMode": true}

type fileInstr struct {
	fset     *token.FileSet
	file     *ast.File
	src      []byte
	name     string
	chanName map[string]bool
	edits    []edit
	nYield   int
	nIO      int
	doneLit  map[*ast.FuncLit]bool
	doneStmt map[token.Pos]bool
	sites    []string
}

// chanOps reports which synchronisation operations n contains, not
// descending into function literals or nested blocks.
func (fi *fileInstr) chanOps(n ast.Node) (o ops) {
	ast.Inspect(n, func(x ast.Node) bool {
		switch t := x.(type) {
		case *ast.FuncLit:
			return false
		case *ast.BlockStmt:
			if x != n {
				return false
			}
		case *ast.SendStmt:
			o.send = true
		case *ast.UnaryExpr:
			if t.Op == token.ARROW {
				o.recv = true
			}
		case *ast.SelectStmt:
			if x == n {
				o.sel = true
			}
			return false
		case *ast.CallExpr:
			switch f := t.Fun.(type) {
			case *ast.Ident:
				if f.Name == "close" && len(t.Args) == 1 {
					o.cls = true
				}
				if (f.Name == "len" || f.Name == "cap") && len(t.Args) == 1 && fi.isChanExpr(t.Args[0]) {
					o.chlen = true
				}
			case *ast.SelectorExpr:
				if f.Sel.Name == "Wait" && len(t.Args) == 0 {
					o.wait = true
				}
				if id, ok := f.X.(*ast.Ident); ok {
					if id.Name == "time" && f.Sel.Name == "Sleep" {
						o.sleep = true
					}
					if ioPkgs[id.Name] && !ioPkgSkip[f.Sel.Name] {
						o.io = true
					}
				}
				if ioMethods[f.Sel.Name] {
					o.io = true
				}
			}
		}
		return true
	})
	return
}

// header expressions of compound statements (not their bodies)
func headerOf(s ast.Stmt) []ast.Node {
	switch t := s.(type) {
	case *ast.IfStmt:
		var r []ast.Node
		if t.Init != nil {
			r = append(r, t.Init)
		}
		r = append(r, t.Cond)
		return r
	case *ast.ForStmt:
		var r []ast.Node
		if t.Init != nil {
			r = append(r, t.Init)
		}
		return r
	case *ast.SwitchStmt:
		var r []ast.Node
		if t.Init != nil {
			r = append(r, t.Init)
		}
		if t.Tag != nil {
			r = append(r, t.Tag)
		}
		return r
	case *ast.RangeStmt:
		return []ast.Node{t.X}
	case *ast.LabeledStmt:
		return headerOf(t.Stmt)
	case *ast.BlockStmt, *ast.TypeSwitchStmt:
		return nil
	case *ast.SelectStmt:
		return []ast.Node{t}
	case *ast.DeferStmt:
		return nil
	case *ast.GoStmt:
		return nil
	default:
		return []ast.Node{s}
	}
}

func (fi *fileInstr) off(p token.Pos) int { return fi.fset.Position(p).Offset }
func (fi *fileInstr) label(p token.Pos) string {
	pp := fi.fset.Position(p)
	return fmt.Sprintf("%s:%d", fi.name, pp.Line)
}

func (fi *fileInstr) isChanExpr(e ast.Expr) bool {
	switch t := e.(type) {
	case *ast.Ident:
		return fi.chanName[t.Name]
	case *ast.SelectorExpr:
		return fi.chanName[t.Sel.Name]
	}
	return false
}

// sharedWrites is rule R9: inside a function literal that runs as a goroutine (go func / errgroup Go), a statement
// that assigns to a variable declared outside the literal - memory other goroutines can see - is followed by a
// scheduling point. Without it two tasks could never interleave between such a write and the next read, and an
// unsynchronised update of shared state would be invisible to a scheduler that only switches at channel, lock and
// file-system operations.
func (fi *fileInstr) sharedWrites(fl *ast.FuncLit) {
	if fi.doneLit == nil {
		fi.doneLit = map[*ast.FuncLit]bool{}
		fi.doneStmt = map[token.Pos]bool{}
	}
	if fi.doneLit[fl] {
		return
	}
	fi.doneLit[fl] = true
	root := func(e ast.Expr) *ast.Ident {
		for {
			switch t := e.(type) {
			case *ast.Ident:
				return t
			case *ast.SelectorExpr:
				e = t.X
			case *ast.IndexExpr:
				e = t.X
			case *ast.StarExpr:
				e = t.X
			case *ast.ParenExpr:
				e = t.X
			default:
				return nil
			}
		}
	}
	captured := func(e ast.Expr) bool {
		id := root(e)
		if id == nil || id.Name == "_" || id.Obj == nil || id.Obj.Kind != ast.Var {
			return false
		}
		p := id.Obj.Pos()
		return p.IsValid() && (p < fl.Pos() || p >= fl.End())
	}
	var lists func(n ast.Node)
	mark := func(list []ast.Stmt) {
		for _, st := range list {
			shared := false
			switch t := st.(type) {
			case *ast.AssignStmt:
				if t.Tok != token.DEFINE {
					for _, l := range t.Lhs {
						if captured(l) {
							shared = true
						}
					}
				}
			case *ast.IncDecStmt:
				shared = captured(t.X)
			}
			if shared && !fi.doneStmt[st.Pos()] {
				fi.doneStmt[st.Pos()] = true
				fi.ins(fi.off(st.End()), fmt.Sprintf("; verifYield(%q)", fi.label(st.Pos())+"w"), 0)
				fi.nYield++
				fi.sites = append(fi.sites, fi.label(st.Pos())+"w")
			}
		}
	}
	lists = func(n ast.Node) {
		ast.Inspect(n, func(x ast.Node) bool {
			switch t := x.(type) {
			case *ast.BlockStmt:
				mark(t.List)
			case *ast.CaseClause:
				mark(t.Body)
			case *ast.CommClause:
				mark(t.Body)
			}
			return true
		})
	}
	lists(fl.Body)
}

func (fi *fileInstr) ins(pos int, text string, prio int) {
	fi.edits = append(fi.edits, edit{pos, pos, text, prio})
}

func (fi *fileInstr) stmtList(list []ast.Stmt) {
	for _, s := range list {
		switch s.(type) {
		case *ast.CaseClause, *ast.CommClause:
			continue
		}
		var o ops
		for _, h := range headerOf(s) {
			o.or(fi.chanOps(h))
		}
		inner := s
		if l, ok := s.(*ast.LabeledStmt); ok {
			inner = l.Stmt
		}
		// a for statement with a receive in its condition/post is rare; handle
		// cond by a yield at the start of the body
		rangeChan := false
		if r, ok := inner.(*ast.RangeStmt); ok && fi.isChanExpr(r.X) {
			rangeChan = true
		}
		at := fi.off(s.Pos())
		if o.io {
			fi.ins(at, fmt.Sprintf("verifIO(%q); ", fi.label(s.Pos())), 0)
			fi.nIO++
			fi.sites = append(fi.sites, "io:"+fi.label(s.Pos()))
		}
		if o.any() || rangeChan {
			fi.ins(at, fmt.Sprintf("verifYield(%q); ", fi.label(s.Pos())), 1)
			fi.nYield++
			fi.sites = append(fi.sites, fi.label(s.Pos()))
		}
		if o.recv || o.wait || o.sleep {
			switch inner.(type) {
			case *ast.ReturnStmt, *ast.BranchStmt:
			case *ast.IfStmt:
				t := inner.(*ast.IfStmt)
				fi.ins(fi.off(t.Body.Lbrace)+1, fmt.Sprintf(" verifYield(%q);", fi.label(s.Pos())+"+"), 0)
				// else branch: the woken task reaches the else body or the statement after
				if eb, ok := t.Else.(*ast.BlockStmt); ok {
					fi.ins(fi.off(eb.Lbrace)+1, fmt.Sprintf(" verifYield(%q);", fi.label(s.Pos())+"+"), 0)
				}
			case *ast.ForStmt, *ast.SwitchStmt, *ast.RangeStmt:
			default:
				fi.ins(fi.off(s.End()), fmt.Sprintf("; verifYield(%q)", fi.label(s.Pos())+"+"), 0)
			}
		}
		if rangeChan {
			r := inner.(*ast.RangeStmt)
			fi.ins(fi.off(r.Body.Lbrace)+1, fmt.Sprintf(" verifYield(%q);", fi.label(s.Pos())+"+"), 0)
			// after the loop ends (channel closed) the task was woken as well
			fi.ins(fi.off(s.End()), fmt.Sprintf("; verifYield(%q)", fi.label(s.Pos())+"$"), 0)
		}
		if sl, ok := inner.(*ast.SelectStmt); ok {
			for _, c := range sl.Body.List {
				cc := c.(*ast.CommClause)
				if cc.Comm == nil {
					continue
				}
				fi.ins(fi.off(cc.Colon)+1, fmt.Sprintf(" verifYield(%q);", fi.label(cc.Pos())+"+"), 0)
			}
		}
	}
}

func isMakeChan(e ast.Expr) bool {
	c, ok := e.(*ast.CallExpr)
	if !ok {
		return false
	}
	id, ok := c.Fun.(*ast.Ident)
	if !ok || id.Name != "make" || len(c.Args) == 0 {
		return false
	}
	_, ok = c.Args[0].(*ast.ChanType)
	return ok
}

// collectChanNames gathers names declared with channel type anywhere in the
// package (fields, vars, params), so that `range x` and `len(x)` on channels
// can be recognised without a full type check.
func collectChanNames(f *ast.File, names map[string]bool) {
	ast.Inspect(f, func(n ast.Node) bool {
		switch t := n.(type) {
		case *ast.Field:
			if _, ok := t.Type.(*ast.ChanType); ok {
				for _, nm := range t.Names {
					names[nm.Name] = true
				}
			}
		case *ast.ValueSpec:
			if _, ok := t.Type.(*ast.ChanType); ok {
				for _, nm := range t.Names {
					names[nm.Name] = true
				}
			}
			for i, v := range t.Values {
				if isMakeChan(v) && i < len(t.Names) {
					names[t.Names[i].Name] = true
				}
			}
		case *ast.AssignStmt:
			for i, v := range t.Rhs {
				if isMakeChan(v) && i < len(t.Lhs) {
					switch l := t.Lhs[i].(type) {
					case *ast.Ident:
						names[l.Name] = true
					case *ast.SelectorExpr:
						names[l.Sel.Name] = true
					}
				}
			}
		case *ast.KeyValueExpr:
			if isMakeChan(t.Value) {
				if id, ok := t.Key.(*ast.Ident); ok {
					names[id.Name] = true
				}
			}
		}
		return true
	})
}

func (fi *fileInstr) passA() ([]byte, error) {
	ast.Inspect(fi.file, func(n ast.Node) bool {
		switch t := n.(type) {
		case *ast.BlockStmt:
			fi.stmtList(t.List)
		case *ast.CaseClause:
			fi.stmtList(t.Body)
		case *ast.CommClause:
			fi.stmtList(t.Body)
		case *ast.SelectorExpr:
			if id, ok := t.X.(*ast.Ident); ok && id.Name == "sync" {
				switch t.Sel.Name {
				case "Mutex", "RWMutex", "Once", "Pool":
					fi.edits = append(fi.edits, edit{fi.off(t.Pos()), fi.off(t.End()), "verif" + t.Sel.Name, 0})
				}
			}
		case *ast.GoStmt:
			if fl, ok := t.Call.Fun.(*ast.FuncLit); ok {
				fi.sharedWrites(fl)
			}
		case *ast.CallExpr:
			// errgroup style X.Go(func() error {...})
			if se, ok := t.Fun.(*ast.SelectorExpr); ok && se.Sel.Name == "Go" && len(t.Args) == 1 {
				if fl, ok := t.Args[0].(*ast.FuncLit); ok {
					fi.ins(fi.off(fl.Pos()), "verifWrapErrFunc(", 0)
					fi.ins(fi.off(fl.End()), ")", 0)
					fi.sharedWrites(fl)
				}
			}
		case *ast.FuncDecl:
			// R7: clone hook
			if t.Name.Name == "CloneRange" && t.Recv == nil && t.Body != nil {
				var ps []string
				for _, f := range t.Type.Params.List {
					for _, nm := range f.Names {
						ps = append(ps, nm.Name)
					}
				}
				if len(ps) == 5 {
					fi.ins(fi.off(t.Body.Lbrace)+1, fmt.Sprintf(" if verifCloneRangeHook != nil { return verifCloneRangeHook(%s) };", strings.Join(ps, ", ")), 0)
				}
			}
		}
		return true
	})
	return applyEdits(fi.src, fi.edits)
}

// pass B: structural rewrites of go statements and multi-case selects.
func passB(name string, src []byte, origPath string) ([]byte, []string, error) {
	var notes []string
	noted := map[string]bool{}
	note := func(s string) {
		if !noted[s] {
			noted[s] = true
			notes = append(notes, s)
		}
	}
	for iter := 0; iter < 200; iter++ { // rewrite outermost constructs per iteration until none left
		fset := token.NewFileSet()
		f, err := parser.ParseFile(fset, name, src, parser.ParseComments|parser.SkipObjectResolution)
		if err != nil {
			return nil, nil, err
		}
		off := func(p token.Pos) int { return fset.Position(p).Offset }
		text := func(n ast.Node) string { return string(src[off(n.Pos()):off(n.End())]) }
		// original line of a position: honour //line directives
		oline := func(p token.Pos) int { return fset.Position(p).Line }
		var edits []edit
		skip := map[ast.Node]bool{}
		var visit func(n ast.Node) bool
		visit = func(n ast.Node) bool {
			switch t := n.(type) {
			case *ast.GoStmt:
				if strings.Contains(text(t), "verifGoStart(") {
					return true
				}
				var b strings.Builder
				b.WriteString("{ verifTok := verifPreSpawn(); ")
				call := t.Call
				if fl, ok := call.Fun.(*ast.FuncLit); ok && len(call.Args) == 0 {
					body := string(src[off(fl.Body.Lbrace)+1 : off(fl.Body.Rbrace)])
					fmt.Fprintf(&b, "go func() { verifGoStart(verifTok); defer func() { verifGoEnd(recover()) }(); %s }() }", body)
				} else {
					fmt.Fprintf(&b, "verifF := %s; ", text(call.Fun))
					var args []string
					for i, a := range call.Args {
						fmt.Fprintf(&b, "verifA%d := %s; ", i, text(a))
						args = append(args, fmt.Sprintf("verifA%d", i))
					}
					ell := ""
					if call.Ellipsis.IsValid() {
						ell = "..."
					}
					fmt.Fprintf(&b, "go func() { verifGoStart(verifTok); defer func() { verifGoEnd(recover()) }(); verifF(%s%s) }() }", strings.Join(args, ", "), ell)
				}
				edits = append(edits, edit{off(t.Pos()), off(t.End()), b.String(), 0})
				return false // nested constructs handled in later iterations
			case *ast.LabeledStmt:
				if _, ok := t.Stmt.(*ast.SelectStmt); ok {
					skip[t.Stmt] = true // labeled select: leave alone
					note(fmt.Sprintf("uncontrolled select (labeled) at %s:%d", name, oline(t.Pos())))
				}
			case *ast.SelectStmt:
				if skip[t] || strings.Contains(string(src[max(0, off(t.Pos())-40):off(t.Pos())]), "/*verifsel*/") {
					return true
				}
				var comms []*ast.CommClause
				var def *ast.CommClause
				for _, c := range t.Body.List {
					cc := c.(*ast.CommClause)
					if cc.Comm == nil {
						def = cc
					} else {
						comms = append(comms, cc)
					}
				}
				k := len(comms)
				if k < 2 {
					return true
				}
				bad := ""
				ast.Inspect(t, func(x ast.Node) bool {
					if _, ok := x.(*ast.LabeledStmt); ok {
						bad = "label inside"
					}
					return true
				})
				// communication expressions are re-evaluated by the poll phase:
				// they must be free of calls other than .Done() / .C accessors
				hoist := map[*ast.CommClause]string{} // send value hoisted into a temporary
				var hoistDecl strings.Builder
				for ci, cc := range comms {
					if ss, ok := cc.Comm.(*ast.SendStmt); ok {
						hasCall := false
						ast.Inspect(ss.Value, func(x ast.Node) bool {
							if _, ok := x.(*ast.CallExpr); ok {
								hasCall = true
							}
							return true
						})
						chanCall := false
						ast.Inspect(ss.Chan, func(x ast.Node) bool {
							if _, ok := x.(*ast.CallExpr); ok {
								chanCall = true
							}
							return true
						})
						if hasCall && !chanCall {
							// Go evaluates send values once on entry to the select, in
							// source order; hoisting keeps that.
							fmt.Fprintf(&hoistDecl, "verifSv%d := %s; ", ci, text(ss.Value))
							hoist[cc] = fmt.Sprintf("%s <- verifSv%d", text(ss.Chan), ci)
							continue
						}
					}
					ast.Inspect(cc.Comm, func(x ast.Node) bool {
						if ce, ok := x.(*ast.CallExpr); ok {
							if se, ok := ce.Fun.(*ast.SelectorExpr); ok && (se.Sel.Name == "Done") && len(ce.Args) == 0 {
								return true
							}
							bad = "call in comm expression"
						}
						return true
					})
				}
				if k > 4 {
					bad = "more than 4 cases"
				}
				if bad != "" {
					note(fmt.Sprintf("uncontrolled select (%s) at %s:%d", bad, name, oline(t.Pos())))
					skip[t] = true
					return true
				}
				bodyText := func(cc *ast.CommClause) string {
					if len(cc.Body) == 0 {
						return ""
					}
					return string(src[off(cc.Body[0].Pos()):off(cc.Body[len(cc.Body)-1].End())])
				}
				line := oline(t.Pos())
				var b strings.Builder
				commText := func(cc *ast.CommClause) string {
					if h, ok := hoist[cc]; ok {
						return h
					}
					return text(cc.Comm)
				}
				fmt.Fprintf(&b, "{ %sverifOrd := verifSelectOrder(%q, %d); verifDone := false\n", hoistDecl.String(), fmt.Sprintf("%s:%d", name, line), k)
				for p := 0; p < k; p++ {
					fmt.Fprintf(&b, "if !verifDone { switch verifOrd[%d] {\n", p)
					for i, cc := range comms {
						fmt.Fprintf(&b, "case %d: /*verifsel*/ select { case %s: verifDone = true; %s\ndefault: }\n", i, commText(cc), bodyText(cc))
					}
					b.WriteString("} }\n")
				}
				b.WriteString("if !verifDone {\n")
				if def != nil {
					b.WriteString(bodyText(def))
				} else {
					if len(hoist) == 0 {
						b.WriteString("/*verifsel*/ " + text(t))
					} else {
						b.WriteString("/*verifsel*/ select {\n")
						for _, cc := range comms {
							fmt.Fprintf(&b, "case %s: %s\n", commText(cc), bodyText(cc))
						}
						b.WriteString("}")
					}
				}
				fmt.Fprintf(&b, "\n} }\n//line %s:%d\n", origPath, oline(t.End()))
				edits = append(edits, edit{off(t.Pos()), off(t.End()), b.String(), 0})
				return false
			}
			return true
		}
		ast.Inspect(f, visit)
		if len(edits) == 0 {
			return src, notes, nil
		}
		src, err = applyEdits(src, edits)
		if err != nil {
			return nil, nil, err
		}
	}
	return nil, nil, fmt.Errorf("%s: pass B did not converge", name)
}

// Report describes what the instrumenter did.
type Report struct {
	Files        int      `json:"files"`
	YieldSites   int      `json:"yield_sites"`
	IOSites      int      `json:"io_sites"`
	Uncontrolled []string `json:"uncontrolled"`
	Overlay      string   `json:"overlay"`
	Sites        []string `json:"sites"` // labels of all scheduling (file:line) and I/O (io:file:line) points
}

// Instrument rewrites repo/*.go into out and writes out/overlay.json. The
// files of inpkg are added to the package as zz_<name>.
func Instrument(repo, out, inpkg string) (*Report, error) {
	repo, _ = filepath.Abs(repo)
	if err := os.MkdirAll(out, 0755); err != nil {
		return nil, err
	}
	overlay := map[string]string{}
	ctx := build.Default
	ctx.BuildTags = []string{"verif"}
	ents, err := os.ReadDir(repo)
	if err != nil {
		return nil, err
	}
	rep := &Report{}
	type parsed struct {
		name, path string
		src        []byte
		fset       *token.FileSet
		f          *ast.File
	}
	var files []parsed
	chanNames := map[string]bool{}
	for _, e := range ents {
		n := e.Name()
		if e.IsDir() || !strings.HasSuffix(n, ".go") || strings.HasSuffix(n, "_test.go") {
			continue
		}
		if ok, _ := ctx.MatchFile(repo, n); !ok {
			continue
		}
		path := filepath.Join(repo, n)
		src, err := os.ReadFile(path)
		if err != nil {
			return nil, err
		}
		fset := token.NewFileSet()
		f, err := parser.ParseFile(fset, path, src, parser.ParseComments) // with object resolution: R9 needs to know what a closure captures
		if err != nil {
			return nil, err
		}
		collectChanNames(f, chanNames)
		files = append(files, parsed{n, path, src, fset, f})
	}
	for _, p := range files {
		fi := &fileInstr{fset: p.fset, file: p.f, src: p.src, name: p.name, chanName: chanNames}
		a, err := fi.passA()
		if err != nil {
			return nil, fmt.Errorf("%s: %v", p.name, err)
		}
		b, notes, err := passB(p.name, a, p.path)
		if err != nil {
			return nil, fmt.Errorf("%s: %v", p.name, err)
		}
		rep.Uncontrolled = append(rep.Uncontrolled, notes...)
		rep.YieldSites += fi.nYield
		rep.IOSites += fi.nIO
		rep.Sites = append(rep.Sites, fi.sites...)
		if !bytes.Equal(b, p.src) {
			if bytes.Contains(p.src, []byte("\"sync\"")) {
				b = append(b, []byte("\nvar _ sync.WaitGroup\n")...)
			}
			dst := filepath.Join(out, p.name)
			if err := os.WriteFile(dst, b, 0644); err != nil {
				return nil, err
			}
			overlay[p.path] = dst
			rep.Files++
		}
	}
	ins, err := os.ReadDir(inpkg)
	if err != nil {
		return nil, err
	}
	for _, e := range ins {
		if !strings.HasSuffix(e.Name(), ".go") {
			continue
		}
		abs, _ := filepath.Abs(filepath.Join(inpkg, e.Name()))
		overlay[filepath.Join(repo, "zz_"+e.Name())] = abs
	}
	j, _ := json.MarshalIndent(map[string]any{"Replace": overlay}, "", " ")
	rep.Overlay = filepath.Join(out, "overlay.json")
	if err := os.WriteFile(rep.Overlay, j, 0644); err != nil {
		return nil, err
	}
	return rep, nil
}
